//go:build verif

package lmd

// C10 stream `c10frame`: every response is well-framed, valid JSON of the documented shape.
//
// A case is a generated dataset (qeGenDataset) with adversarial strings in its string /
// string list / custom variable cells, loaded through lmd's importer into a real Daemon,
// optional raw injections into cached cells (bytes a JSON backend reply cannot carry:
// invalid UTF-8; and a 1 MB string), and 1-6 request texts. Every request is answered
// (a) through NewRequest / NewResponse / Response.send into a buffer - the cells are read
// from the result rows with the typed accessors BEFORE serialisation and shipped to the
// Coq model together with the raw bytes - and (b), for socket cases, the whole sequence is
// sent over a real unix socket listener of the daemon (NewListener), the next request only
// after the previous answer was read; the raw byte stream and whether the daemon closed are
// shipped as well.

import (
	"bufio"
	"bytes"
	"context"
	"encoding/hex"
	"encoding/json"
	"errors"
	"fmt"
	"io"
	"math"
	"math/big"
	"net"
	"os"
	"path/filepath"
	"regexp"
	"sort"
	"strconv"
	"strings"
	"time"
	"unicode/utf8"
)

type c10Inject struct {
	Backend string   `json:"backend"`
	Table   string   `json:"table"`
	Row     int      `json:"row"`
	Col     string   `json:"col"`
	Hex     string   `json:"hex,omitempty"`   // string column: unit bytes
	Count   int      `json:"count,omitempty"` // repetitions of the unit (default 1)
	List    []string `json:"list,omitempty"`  // string list column: hex encoded elements
}

type c10Input struct {
	DS     *qeDataset        `json:"ds"`
	Inject []c10Inject       `json:"inject"`
	ErrHex map[string]string `json:"errhex,omitempty"` // backend key -> last error text (hex) of a backend that is down
	Reqs   []string          `json:"reqs"`
	Socket bool              `json:"socket"`
	// Pipeline: all requests of the socket sequence are written at once (a client which does not wait for the answers)
	Pipeline bool `json:"pipeline,omitempty"`
}

func init() {
	verifRegister("c10frame", "C10: framing / JSON shape of responses (buffer and unix socket)", c10Main)
}

// ---- adversarial strings -------------------------------------------------------------

func c10AllCtrl() string {
	var sb strings.Builder
	for i := 0; i < 0x20; i++ {
		sb.WriteByte(byte(i))
	}
	sb.WriteByte(0x7f)

	return sb.String()
}

// valid UTF-8 only: these go through the snapshot files and the importer
var c10Pool = []string{
	`"`, `\`, `\"`, `\\`, `a"b\c`, `""`, "\\u0041", `\n`, "line1\nline2", "tab\there", "cr\r", "\x00", "a\x00b", "\x01\x02\x03", "\x1f", "\x7f",
	"\u2028", "\u2029", "x\u2028y\u2029z", "<>&", "</script><b>&amp;", "'", "é", "Zürich \"ÄÖ\"", "日本\\語", "😀", "\ufffd", "\U0010FFFF", "",
	" ", "  x  ", "]", "}", "[1,2]", `{"a":1}`, ",", `":"`, "null", "true", "-1", "1e5", "\b\f", "a/b",
}

var c10InvalidPool = []string{
	"\x80", "\xff", "a\xffb", "\xc3", "\xc3(", "\xe2\x80", "\xe2\x28\xa1", "\xed\xa0\x80", "\xc0\xaf", "\xf8\x88\x80\x80\x80", "\xf0\x9f\x98", "\xf4\x90\x80\x80",
	"ok\xfe\xfe\"\\\x01", "\x80\x80\x80", "é\xe9", "\xe2\x80\xa8\xff",
}

func c10Adversarial(r *vRand) string {
	switch r.intn(10) {
	case 0:
		return c10AllCtrl()
	case 1:
		return string([]byte{byte(r.intn(0x20))})
	case 2:
		// a few random bytes below 0x80
		n := 1 + r.intn(6)
		b := make([]byte, n)
		for i := range b {
			b[i] = byte(r.intn(0x80))
		}

		return string(b)
	case 3:
		return vPick(r, c10Pool) + vPick(r, c10Pool)
	}

	return vPick(r, c10Pool)
}

func c10InvalidString(r *vRand) string {
	if r.chance(1, 4) {
		n := 1 + r.intn(8)
		b := make([]byte, n)
		for i := range b {
			b[i] = byte(r.intn(256))
		}

		return string(b)
	}
	s := vPick(r, c10InvalidPool)
	if r.chance(1, 3) {
		s = vPick(r, c10Pool) + s + vPick(r, c10Pool)
	}

	return s
}

// columns that identify or reference objects keep their generated values
var c10KeyCols = map[string]bool{"name": true, "host_name": true, "description": true, "service_description": true, "groups": true,
	"members": true, "contacts": true, "services": true, "livestatus_version": true, "program_version": true, "peer_key": true}

// c10Hot collects, per table, the columns that carry adversarial values (requests prefer them)
type c10Hot map[string][]string

func (h c10Hot) add(table, col string) {
	for _, c := range h[table] {
		if c == col {
			return
		}
	}
	h[table] = append(h[table], col)
	if table == "hosts" {
		h.add("services", "host_"+col)
	}
}

func c10Mutate(r *vRand, ds *qeDataset, shortCV bool, hot c10Hot) {
	for _, bk := range ds.Backends {
		if r.chance(1, 4) {
			bk.Name = c10Adversarial(r) + "x"
		}
		for _, t := range bk.Tables {
			nameIdx, valIdx := t.col("custom_variable_names"), t.col("custom_variable_values")
			for _, row := range t.Rows {
				for ci, cn := range t.Cols {
					if c10KeyCols[cn] || ci >= len(row) {
						continue
					}
					switch v := row[ci].(type) {
					case string:
						if r.chance(1, 3) {
							row[ci] = c10Adversarial(r)
							hot.add(t.Name, cn)
						}
					case []string:
						if cn == "custom_variable_names" || cn == "custom_variable_values" {
							continue
						}
						if r.chance(1, 3) {
							n := r.intn(4)
							l := []string{}
							for i := 0; i < n; i++ {
								l = append(l, c10Adversarial(r))
							}
							row[ci] = l
							hot.add(t.Name, cn)
						}
						_ = v
					}
				}
				if li := t.col("latency"); li >= 0 && li < len(row) && r.chance(1, 40) {
					// a backend that sends a string in a float column: lmd parses it with strconv.ParseFloat
					row[li] = vPick(r, []string{"NaN", "Inf", "1e999", "-Infinity", "0x1p-2", " 1"})
				}
				if nameIdx >= 0 && valIdx >= 0 && r.chance(1, 2) {
					n := r.intn(5)
					names, values := []string{}, []string{}
					for i := 0; i < n; i++ {
						switch {
						case i > 0 && r.chance(1, 3):
							names = append(names, names[r.intn(len(names))]) // duplicate name
						case r.chance(1, 3):
							names = append(names, c10Adversarial(r))
						default:
							names = append(names, vPick(r, qeCVNames))
						}
						if r.chance(1, 2) {
							values = append(values, c10Adversarial(r))
						} else {
							values = append(values, vPick(r, qeCVValues))
						}
					}
					if r.chance(1, 6) {
						values = append(values, "surplus")
					}
					if n > 0 && r.chance(1, 3) {
						values = values[:r.intn(n)] // fewer values than names
					}
					row[nameIdx], row[valIdx] = names, values
					hot.add(t.Name, "custom_variables")
					hot.add(t.Name, "custom_variable_names")
					hot.add(t.Name, "custom_variable_values")
				}
			}
		}
	}
}

// ---- request generator ---------------------------------------------------------------

var c10Tables = []string{"hosts", "hosts", "hosts", "services", "services", "services", "hostgroups", "servicegroups", "contacts", "contactgroups", "commands",
	"timeperiods", "comments", "comments", "downtimes", "status", "sites", "backends", "columns", "tables"}

var c10SocketTables = []string{"hosts", "hosts", "services", "services", "hostgroups", "servicegroups", "contacts", "comments", "downtimes", "commands"}

var c10Volatile = map[string]bool{"localtime": true, "last_query": true}

var c10BadRequests = []string{
	"GET nosuchtable\n\n", "FOO bar\n\n", "GET hosts\nColumns name\n\n", "GET hosts\nFilter: name ~~ (\n\n", "GET hosts\nLimit: x\n\n", "GET hosts\nOutputFormat: xml\n\n",
	"GET hosts\nResponseHeader: fixed17\n\n", "GET hosts\nKeepAlive: maybe\n\n", "GET hosts\nBogus: 1\n\n", "GET services\nSort: description up\n\n",
	"GET hosts\nColumns: name\nSort: nosuchcol asc\n\n", "GET hosts\nResponseHeader: fixed16\nKeepAlive: on\nFilter: state\n\n", "GET\n\n", "GET hosts\nOffset: -1\n\n",
	"GET hosts\nAuthUser:\n\n", "GET hosts\nStats: state\n\n", "get hosts\n\n", "GET hosts\nNegate:\n\n",
}

func c10ColumnNames(table string) []string {
	tn, err := NewTableName(table)
	if err != nil {
		return nil
	}
	names := []string{}
	for _, c := range Objects.Tables[tn].columns {
		names = append(names, c.Name)
	}

	return names
}

// c10GenRequest generates one request text. socket: only shapes whose bytes do not depend on the clock or on map order.
func c10GenRequest(r *vRand, ds *qeDataset, socket, shortCV bool, hot c10Hot, hist func(string)) string {
	if r.chance(1, 9) {
		hist("req:bad")

		return vPick(r, c10BadRequests)
	}
	if r.chance(1, 30) {
		hist("req:emptyline")

		return "\n"
	}
	table := vPick(r, c10Tables)
	if socket {
		table = vPick(r, c10SocketTables)
	}
	lines := []string{"GET " + table}
	all := c10ColumnNames(table)
	stats := (table == "hosts" || table == "services") && r.chance(1, 6)
	cols := []string{}
	switch {
	case stats:
		if r.chance(1, 2) {
			// (socket: one group column only - rows whose first key ties come out in Go map order, so two
			// evaluations of the same request may list them differently; not a framing matter)
			ng := 1 + r.intn(2)
			if socket {
				ng = 1
			}
			for i := 0; i < ng; i++ {
				gc := vPick(r, []string{"plugin_output", "display_name", "state", "check_command", "notes", "alias", "name", "host_name", "custom_variables", "groups"})
				if socket && (gc == "custom_variables" || gc == "groups") {
					// list valued keys: different lists can have the same text in result column 0, by which the group
					// lines are ordered - such lines come out in Go map order, two evaluations of one request differ.
					// (Strings with a NUL byte had the same effect until /repo c443ad3: the key splitting cut them.)
					gc = "name"
				}
				if gc == "custom_variables" && !shortCV {
					// DESIGN D23 / notes/C10.md: grouping by custom_variables crashes the pinned daemon when a row has
					// fewer values than names; only with --shortcv
					gc = "display_name"
				}
				cols = append(cols, gc)
			}
		}
	case r.chance(1, 8):
		// no Columns header: all columns, header row forced
	default:
		n := 1 + r.intn(6)
		for i := 0; i < n; i++ {
			switch r.intn(12) {
			case 0:
				cols = append(cols, vPick(r, []string{"nosuchcol", "host_nosuch", "x", "empty"}))
			case 1:
				if len(cols) > 0 {
					cols = append(cols, cols[r.intn(len(cols))])
				}
			case 2:
				cols = append(cols, vPick(r, []string{"custom_variables", "custom_variable_names", "custom_variable_values", "host_custom_variables", "plugin_output", "long_plugin_output", "notes"}))
			case 3, 4, 5, 6:
				if len(hot[table]) > 0 {
					cols = append(cols, vPick(r, hot[table]))
				} else {
					cols = append(cols, vPick(r, all))
				}
			default:
				cols = append(cols, vPick(r, all))
			}
		}
	}
	if socket {
		keep := cols[:0]
		for _, c := range cols {
			if !c10Volatile[c] && !c10Volatile[strings.TrimPrefix(c, "host_")] && !c10Volatile[strings.TrimPrefix(c, "service_")] {
				keep = append(keep, c)
			}
		}
		cols = keep
		if len(cols) == 0 && !stats {
			cols = []string{vPick(r, []string{"plugin_output", "custom_variables", "display_name"})}
		}
	}
	if len(cols) > 0 {
		lines = append(lines, "Columns: "+strings.Join(cols, " "))
		hist("cols:given")
	} else if !stats {
		hist("cols:all")
		lines = append(lines, fmt.Sprintf("Limit: %d", 1+r.intn(2)))
	}
	if stats {
		hist("req:stats")
		n := 1 + r.intn(3)
		for i := 0; i < n; i++ {
			lines = append(lines, "Stats: "+vPick(r, []string{"state = 0", "state != 0", "sum latency", "avg latency", "min execution_time", "max execution_time",
				"sum current_attempt", "avg state", "has_been_checked = 1", "plugin_output ~ a", "max last_check"}))
		}
	}
	switch r.intn(4) {
	case 0:
		lines = append(lines, "ColumnHeaders: on")
		hist("hdr:on")
	case 1:
		lines = append(lines, "ColumnHeaders: off")
		hist("hdr:off")
	}
	switch r.intn(7) {
	case 0, 1, 2:
		lines = append(lines, "OutputFormat: wrapped_json")
		hist("fmt:wrapped")
	case 3:
		lines = append(lines, "OutputFormat: json")
		hist("fmt:json")
	case 4:
		lines = append(lines, "OutputFormat: "+vPick(r, []string{"python", "python3"}))
		hist("fmt:python")
	default:
		hist("fmt:default")
	}
	if r.chance(1, 2) {
		lines = append(lines, "ResponseHeader: fixed16")
		hist("fixed16:on")
	} else {
		hist("fixed16:off")
	}
	if r.chance(1, 10) && !stats {
		lines = append(lines, "Filter: "+vPick(r, []string{"name = zz_no_such_object", "name != "}))
		hist("filter")
	}
	if r.chance(1, 5) && len(cols) > 0 && !stats {
		lines = append(lines, fmt.Sprintf("Limit: %d", vPick(r, []int{0, 1, 2, 2, 3, 3})))
	}
	if r.chance(1, 8) && !stats {
		lines = append(lines, fmt.Sprintf("Offset: %d", vPick(r, []int{0, 1, 2, 1000})))
	}
	if r.chance(1, 3) {
		ids := []string{}
		for _, bk := range ds.Backends {
			if r.chance(1, 2) {
				ids = append(ids, bk.Key)
			}
		}
		if r.chance(1, 2) {
			ids = append(ids, vPick(r, []string{"nosuchbackend", "nosuchbackend", `no"such`, `back\slash`, "<id>&", "\x01ctrl"}))
		}
		if !socket && r.chance(1, 2) {
			// two or three entries in the failed map
			ids = append(ids, "other-missing")
			if r.chance(1, 2) {
				ids = append(ids, `third"missing`)
			}
		}
		if len(ids) > 0 {
			lines = append(lines, "Backends: "+strings.Join(ids, " "))
			hist("backends:given")
		}
	}
	if socket && r.chance(5, 6) || !socket && r.chance(1, 3) {
		lines = append(lines, "KeepAlive: on")
		hist("keepalive:on")
	} else if r.chance(1, 3) {
		lines = append(lines, "KeepAlive: off")
	}
	hist("table:" + table)

	return strings.Join(lines, "\n") + "\n\n"
}

func c10GenInjects(r *vRand, ds *qeDataset, big, rawUTF8 bool, hot c10Hot, hist func(string)) []c10Inject {
	res := []c10Inject{}
	cands := []c10Inject{}
	for _, bk := range ds.Backends {
		if !bk.Avail {
			continue
		}
		for _, t := range bk.Tables {
			tn, err := NewTableName(t.Name)
			if err != nil {
				continue
			}
			for ri := range t.Rows {
				for _, cn := range t.Cols {
					col := Objects.Tables[tn].GetColumn(cn)
					if col == nil || c10KeyCols[cn] || col.StorageType != LocalStore {
						continue
					}
					if col.DataType == StringCol || col.DataType == StringListCol || col.DataType == StringLargeCol {
						cands = append(cands, c10Inject{Backend: bk.Key, Table: t.Name, Row: ri, Col: cn})
					}
				}
			}
		}
	}
	if len(cands) == 0 {
		return res
	}
	n := r.intn(6)
	if !rawUTF8 {
		// invalid UTF-8 in cached strings is copied into the body by the pinned code (notes/C10.md F1):
		// kept out of the main stream until the fix is in, enable with --rawutf8
		n = 0
	}
	for i := 0; i < n; i++ {
		inj := vPick(r, cands)
		tn, _ := NewTableName(inj.Table)
		col := Objects.Tables[tn].GetColumn(inj.Col)
		if col.DataType == StringCol || col.DataType == StringLargeCol {
			inj.Hex = hex.EncodeToString([]byte(c10InvalidString(r)))
			inj.Count = 1
		} else {
			if strings.HasPrefix(inj.Col, "custom_variable_") {
				continue
			}
			k := r.intn(3)
			inj.List = []string{}
			for j := 0; j < k; j++ {
				inj.List = append(inj.List, hex.EncodeToString([]byte(c10InvalidString(r))))
			}
		}
		hist("inject:invalid-utf8")
		hot.add(inj.Table, inj.Col)
		res = append(res, inj)
	}
	if big {
		bigCol := vPick(r, []string{"notes", "plugin_output"})
		for _, inj := range cands {
			if inj.Col == bigCol && inj.Table == "hosts" {
				unit := "0123456789abcdef \"q\" \\b\\ <é> \x01\n\x7f" // 36 bytes
				inj.Hex = hex.EncodeToString([]byte(unit))
				inj.Count = (1<<20)/len(unit) + 1
				res = append(res, inj)
				hist("inject:1MB")

				break
			}
		}
	}

	return res
}

func c10GenInput(r *vRand, idx int, tier string, shortCV, rawUTF8 bool, bigDone *bool, hist func(string)) *c10Input {
	socket := r.chance(2, 5)
	maxBackends := 3
	if socket {
		maxBackends = 1
	}
	var ds *qeDataset
	for try := 0; try < 8; try++ {
		ds = qeGenDataset(r.fork(), maxBackends, 4)
		if len(ds.Backends[0].table("hosts").Rows) > 0 && (try > 4 || len(ds.Backends[0].table("services").Rows) > 0) {
			break
		}
	}
	hot := c10Hot{}
	var errHex map[string]string
	c10Mutate(r, ds, shortCV, hot)
	if !socket && len(ds.Backends) > 1 && r.chance(1, 3) {
		bk := ds.Backends[r.intn(len(ds.Backends))]
		bk.Avail = false
		bk.Error = "connect failed: " + c10Adversarial(r) + " \n"
		hist("backend:down")
		if rawUTF8 {
			errHex = map[string]string{bk.Key: hex.EncodeToString([]byte("bad response code: 400 - " + c10InvalidString(r)))}
		}
	}
	// one 1 MB string per quick run (the first buffer-only case after case 0), one per 250 cases in the thorough tier
	big := !socket && idx >= 1 && !*bigDone || (tier == "thorough" && idx%250 == 1)
	*bigDone = *bigDone || big
	in := &c10Input{DS: ds, Socket: socket && !big, ErrHex: errHex}
	in.Pipeline = in.Socket && r.chance(1, 3)
	in.Inject = c10GenInjects(r, ds, big, rawUTF8, hot, hist)
	n := 1 + r.intn(6)
	if !socket {
		n = 1 + r.intn(3)
	}
	for i := 0; i < n; i++ {
		in.Reqs = append(in.Reqs, c10GenRequest(r, ds, socket, shortCV, hot, hist))
	}
	if big {
		in.Reqs = append([]string{"GET hosts\nColumns: name plugin_output notes state\nResponseHeader: fixed16\nOutputFormat: wrapped_json\nKeepAlive: on\n\n"}, in.Reqs...)
	}

	return in
}

// ---- Coq emission (63 bit words, see coq/theories/C10/Run.v) --------------------------

type c10Emit struct {
	pre   strings.Builder // auxiliary chunk definitions of the current case
	name  string
	chunk int
}

func c10Words(b []byte) []string {
	words := make([]string, 0, len(b)/7+1)
	for i := 0; i < len(b); i += 7 {
		end := i + 7
		if end > len(b) {
			end = len(b)
		}
		var w uint64
		for _, x := range b[i:end] {
			w = w<<8 | uint64(x)
		}
		w |= uint64(end-i) << 56
		words = append(words, strconv.FormatUint(w, 10))
	}

	return words
}

func (e *c10Emit) bytes(b []byte) string {
	if len(b) == 0 {
		return "[]"
	}
	words := c10Words(b)
	if len(words) <= 1500 {
		return "(B [" + strings.Join(words, ";") + "])"
	}
	names := []string{}
	for i := 0; i < len(words); i += 1500 {
		end := i + 1500
		if end > len(words) {
			end = len(words)
		}
		name := fmt.Sprintf("%s_k%d", e.name, e.chunk)
		e.chunk++
		fmt.Fprintf(&e.pre, "Definition %s : list int := [%s].\n", name, strings.Join(words[i:end], ";"))
		names = append(names, name)
	}

	return "(BB [" + strings.Join(names, ";") + "])"
}

func (e *c10Emit) str(s string) string { return e.bytes([]byte(s)) }

// strRep: a long periodic string is shipped as unit x count
func (e *c10Emit) strMaybeRep(s string) string {
	if len(s) > 4096 {
		for p := 1; p <= 64; p++ {
			if len(s)%p == 0 && strings.Repeat(s[:p], len(s)/p) == s {
				return fmt.Sprintf("(BR [%s] %d)", strings.Join(c10Words([]byte(s[:p])), ";"), len(s)/p)
			}
		}
	}

	return e.str(s)
}

func (e *c10Emit) strList(l []string) string {
	parts := make([]string, 0, len(l))
	for _, s := range l {
		parts = append(parts, e.strMaybeRep(s))
	}

	return "[" + strings.Join(parts, ";") + "]"
}

func c10Z(v *big.Int) string {
	if v.IsInt64() {
		i := v.Int64()
		if i >= 0 && i < 1<<62 {
			return fmt.Sprintf("(zi %d)", i)
		}
		if i < 0 && -i < 1<<62 && i != math.MinInt64 {
			return fmt.Sprintf("(zn %d)", -i)
		}
	}

	return "(" + v.String() + ")%Z"
}

func c10ZInt(i int64) string { return c10Z(big.NewInt(i)) }

// c10FloatME renders a float64 as m*10^e in the normal form of the Coq parser.
func c10FloatME(f float64) (string, bool) {
	if math.IsNaN(f) || math.IsInf(f, 0) {
		return "", false
	}
	s := strconv.FormatFloat(f, 'e', -1, 64)
	neg := strings.HasPrefix(s, "-")
	s = strings.TrimPrefix(s, "-")
	parts := strings.SplitN(s, "e", 2)
	exp, _ := strconv.Atoi(parts[1])
	digits := strings.Replace(parts[0], ".", "", 1)
	e := exp - (len(digits) - 1)
	m, _ := new(big.Int).SetString(digits, 10)
	ten := big.NewInt(10)
	if m.Sign() == 0 {
		return "XNum (zi 0) (zi 0)", true
	}
	if e >= 0 {
		m.Mul(m, new(big.Int).Exp(ten, big.NewInt(int64(e)), nil))
		e = 0
	}
	for e < 0 && new(big.Int).Mod(m, ten).Sign() == 0 {
		m.Div(m, ten)
		e++
	}
	if neg {
		m.Neg(m)
	}

	return fmt.Sprintf("XNum %s %s", c10Z(m), c10ZInt(int64(e))), true
}

// c10Sanitize: what a JSON reader gets back from jsoniter's HTML escaping string encoder
func c10Sanitize(s string) string {
	var sb strings.Builder
	for i := 0; i < len(s); {
		if s[i] < utf8.RuneSelf {
			sb.WriteByte(s[i])
			i++

			continue
		}
		r, size := utf8.DecodeRuneInString(s[i:])
		if r == utf8.RuneError && size == 1 {
			sb.WriteString("\ufffd")
			i++

			continue
		}
		sb.WriteString(s[i : i+size])
		i += size
	}

	return sb.String()
}

// jsonTerm converts a Go value that lmd hands to jsoniter's WriteVal into the Coq json value a reader gets.
func (e *c10Emit) jsonTerm(v interface{}) string {
	switch val := v.(type) {
	case nil:
		return "JNull"
	case bool:
		if val {
			return "JBool true"
		}

		return "JBool false"
	case string:
		return "JStr " + e.str(c10Sanitize(val))
	case *string:
		if val == nil {
			return "JNull"
		}

		return "JStr " + e.str(c10Sanitize(*val))
	case float64:
		t, ok := c10FloatME(val)
		if !ok {
			return "JNull"
		}

		return "JNum" + strings.TrimPrefix(t, "XNum")
	case int:
		return "JNum " + c10ZInt(int64(val)) + " (zi 0)"
	case int8:
		return "JNum " + c10ZInt(int64(val)) + " (zi 0)"
	case int32:
		return "JNum " + c10ZInt(int64(val)) + " (zi 0)"
	case int64:
		return "JNum " + c10ZInt(val) + " (zi 0)"
	case uint64:
		return "JNum " + c10Z(new(big.Int).SetUint64(val)) + " (zi 0)"
	case json.Number:
		f, _ := val.Float64()

		return e.jsonTerm(f)
	case []interface{}:
		parts := []string{}
		for _, x := range val {
			parts = append(parts, e.jsonTerm(x))
		}

		return "JArr [" + strings.Join(parts, ";") + "]"
	case []string:
		parts := []string{}
		for _, x := range val {
			parts = append(parts, e.jsonTerm(x))
		}

		return "JArr [" + strings.Join(parts, ";") + "]"
	case []int64:
		parts := []string{}
		for _, x := range val {
			parts = append(parts, e.jsonTerm(x))
		}

		return "JArr [" + strings.Join(parts, ";") + "]"
	case map[string]interface{}:
		keys := []string{}
		for k := range val {
			keys = append(keys, k)
		}
		sort.Strings(keys)
		parts := []string{}
		for _, k := range keys {
			parts = append(parts, "("+e.str(c10Sanitize(k))+", "+e.jsonTerm(val[k])+")")
		}

		return "JObj [" + strings.Join(parts, ";") + "]"
	}
	// anything else: through encoding/json and back
	buf, err := json.Marshal(v)
	if err != nil {
		return "JNull"
	}
	var generic interface{}
	dec := json.NewDecoder(bytes.NewReader(buf))
	dec.UseNumber()
	if dec.Decode(&generic) != nil {
		return "JNull"
	}

	return e.jsonTerm(generic)
}

// ---- reading the cells of a result row with the typed accessors ---------------------------

func (e *c10Emit) emptyCell(col *Column) string {
	switch col.DataType {
	case StringCol, StringLargeCol:
		return "XC (CStr [])"
	case IntCol, Int64Col, FloatCol:
		return "XC (CInt (zn 1))"
	case Int64ListCol, StringListCol, ServiceMemberListCol, InterfaceListCol:
		return "XC (CStrList [])"
	}

	return "XC CEmptyObj"
}

func (e *c10Emit) intList(l []int64) string {
	parts := []string{}
	for _, x := range l {
		parts = append(parts, c10ZInt(x))
	}

	return "XC (CIntList [" + strings.Join(parts, ";") + "])"
}

func (e *c10Emit) ifaceList(l []interface{}) string {
	parts := []string{}
	for _, x := range l {
		parts = append(parts, e.jsonTerm(x))
	}

	return "XJson (JArr [" + strings.Join(parts, ";") + "])"
}

func (e *c10Emit) floatCell(f float64) string {
	t, ok := c10FloatME(f)
	if !ok {
		return "XAny"
	}

	return t
}

func (e *c10Emit) cell(d *DataRow, col *Column, hist func(string)) string {
	if col.Optional != NoFlags && !d.dataStore.peer.HasFlag(col.Optional) {
		hist("cell:optional-missing")

		return e.emptyCell(col)
	}
	switch col.StorageType {
	case LocalStore:
		switch col.DataType {
		case StringCol:
			return "XC (CStr " + e.strMaybeRep(d.dataString[col.Index]) + ")"
		case StringLargeCol:
			return "XC (CStr " + e.strMaybeRep(d.dataStringLarge[col.Index].String()) + ")"
		case StringListCol:
			return "XC (CStrList " + e.strList(d.dataStringList[col.Index]) + ")"
		case IntCol:
			return "XC (CInt " + c10ZInt(int64(d.dataInt[col.Index])) + ")"
		case Int64Col:
			return "XC (CInt " + c10ZInt(d.dataInt64[col.Index]) + ")"
		case FloatCol:
			return e.floatCell(d.dataFloat[col.Index])
		case Int64ListCol:
			return e.intList(d.dataInt64List[col.Index])
		case ServiceMemberListCol:
			parts := []string{}
			for _, m := range d.dataServiceMemberList[col.Index] {
				parts = append(parts, "("+e.str(m[0])+", "+e.str(m[1])+")")
			}

			return "XC (CPairs [" + strings.Join(parts, ";") + "])"
		case InterfaceListCol:
			return e.ifaceList(d.dataInterfaceList[col.Index])
		}
	case RefStore:
		ref := d.refs[col.RefColTableName]
		if ref == nil {
			hist("cell:ref-missing")

			return e.emptyCell(col)
		}

		return e.cell(ref, col.RefCol, hist)
	case VirtualStore:
		if c10Volatile[col.Name] {
			return "XAny"
		}
		switch col.DataType {
		case StringCol:
			return "XC (CStr " + e.strMaybeRep(d.GetString(col)) + ")"
		case StringListCol:
			return "XC (CStrList " + e.strList(d.GetStringList(col)) + ")"
		case IntCol:
			return "XC (CInt " + c10ZInt(int64(d.GetInt8(col))) + ")"
		case Int64Col:
			return "XC (CInt " + c10ZInt(d.GetInt64(col)) + ")"
		case FloatCol:
			return e.floatCell(d.GetFloat(col))
		case Int64ListCol:
			return e.intList(d.GetInt64List(col))
		case InterfaceListCol:
			return e.ifaceList(d.GetInterfaceList(col))
		case CustomVarCol:
			namesCol := d.dataStore.GetColumn("custom_variable_names")
			valuesCol := d.dataStore.GetColumn("custom_variable_values")
			if namesCol.Optional != NoFlags && !d.dataStore.peer.HasFlag(namesCol.Optional) {
				return "XC CEmptyObj"
			}
			names, values := d.dataStringList[namesCol.Index], d.dataStringList[valuesCol.Index]
			seen := map[string]bool{}
			for _, n := range names {
				if seen[n] {
					hist("cell:custvar-duplicate-name")
				}
				seen[n] = true
			}
			switch {
			case len(values) < len(names):
				hist("cell:custvar-missing-values")
			case len(values) > len(names):
				hist("cell:custvar-surplus-values")
			}

			return "XC (CCustVar " + e.strList(names) + " " + e.strList(values) + ")"
		case JSONCol:
			raw := d.GetString(col)
			var generic interface{}
			dec := json.NewDecoder(strings.NewReader(raw))
			dec.UseNumber()
			if dec.Decode(&generic) != nil {
				return "XJson JNull"
			}

			return "XJson (" + e.jsonTerm(generic) + ")"
		}
	}
	panic(fmt.Sprintf("c10: unsupported column %s type %s storage %d", col.Name, col.DataType.String(), col.StorageType))
}

func c10ClassifyString(s string, hist func(string)) {
	if s == "" {
		return
	}
	if !utf8.ValidString(s) {
		hist("string:invalid-utf8")
	}
	if strings.ContainsAny(s, "\"\\") {
		hist("string:quote-or-backslash")
	}
	if strings.ContainsAny(s, "<>&") {
		hist("string:html")
	}
	if strings.Contains(s, "\u2028") || strings.Contains(s, "\u2029") {
		hist("string:u2028")
	}
	for i := 0; i < len(s); i++ {
		if s[i] < 0x20 || s[i] == 0x7f {
			hist("string:control")

			break
		}
	}
	if len(s) >= 1<<20 {
		hist("string:1MB")
	}
}

// ---- one request through NewRequest / NewResponse / Response.send ---------------------------

type c10Obs struct {
	coq    string // robs term
	sent   []byte
	closes bool // daemon closes after this answer (only used for statistics)
	get    bool
}

var c10ReHeader = regexp.MustCompile(`^[0-9]{3} +[0-9]+$`)

// goSide: checks done here: encoding/json accepts the body, header regexp and length.
func c10GoSide(fixed16 bool, isErr bool, sent []byte) string {
	body := sent
	if fixed16 {
		if len(sent) < 16 || sent[15] != '\n' || !c10ReHeader.Match(sent[:15]) || sent[3] != ' ' {
			return "fixed16 header malformed: " + strconv.Quote(string(sent[:min(len(sent), 16)]))
		}
		n, err := strconv.Atoi(strings.TrimSpace(string(sent[4:15])))
		if err != nil || n != len(sent)-16 {
			return fmt.Sprintf("fixed16 length %d but %d bytes follow", n, len(sent)-16)
		}
		body = sent[16:]
	}
	if len(body) == 0 || body[len(body)-1] != '\n' {
		return "answer does not end with a newline"
	}
	if !isErr && !json.Valid(body) {
		return "encoding/json rejects the body"
	}

	return ""
}

func (e *c10Emit) sendOne(lmd *Daemon, text string, hist func(string)) (obs *c10Obs, goErr string) {
	obs = &c10Obs{}
	defer func() {
		if rec := recover(); rec != nil {
			goErr = fmt.Sprintf("panic: %v", rec)
			obs.coq = "OEmpty"
			obs.get = false
			hist("PANIC")
		}
	}()
	if strings.TrimSpace(text) == "" {
		obs.coq = "OEmpty"

		return obs, ""
	}
	ctx := context.Background()
	req, _, err := NewRequest(ctx, lmd, bufio.NewReader(strings.NewReader(text)), lmd.defaultReqestParseOption)
	if err == nil && req != nil {
		err = req.ExpandRequestedBackends()
	}
	if err != nil || req == nil {
		if err == nil {
			err = errors.New("bad request: empty request")
		}
		var buf bytes.Buffer
		_, _ = (&Response{code: ReturnCodeBadRequest, request: &Request{}, err: err}).send(&buf)
		obs.sent = append([]byte{}, buf.Bytes()...)
		obs.coq = "OBad " + e.bytes(obs.sent)
		obs.closes = true
		hist("answer:unparsable")

		return obs, c10GoSide(false, true, obs.sent)
	}
	obs.get = true
	obs.closes = !req.KeepAlive
	res, _, err := NewResponse(ctx, req, nil)
	if err != nil {
		// what ClientConnection.processRequest answers
		code := ReturnCodeBadRequest
		var netErr net.Error
		var peerErr *PeerError
		if errors.As(err, &netErr) || (errors.As(err, &peerErr) && peerErr.kind == ConnectionError) {
			code = ReturnCodeConnectionError
		}
		var buf bytes.Buffer
		_, _ = (&Response{code: code, request: req, err: err}).send(&buf)
		obs.sent = append([]byte{}, buf.Bytes()...)
		obs.coq = fmt.Sprintf("OGet %s %s (ni %d) EErr %s", coqBool(req.KeepAlive), coqBool(req.ResponseFixed16), code, e.bytes(obs.sent))
		hist(fmt.Sprintf("answer:error-%d", code))

		return obs, c10GoSide(req.ResponseFixed16, true, obs.sent)
	}

	// the cells, read before serialisation
	rows := []string{}
	nCells := 0
	switch {
	case res.result != nil:
		for _, row := range res.result {
			cells := []string{}
			for _, v := range row {
				switch val := v.(type) {
				case *string:
					c10ClassifyString(*val, hist)
					cells = append(cells, "XC (CHtml "+e.strMaybeRep(*val)+")")
					hist("cell:html-escaped-key")
				case string:
					cells = append(cells, "XC (CHtml "+e.strMaybeRep(val)+")")
				case float64:
					cells = append(cells, e.floatCell(val))
				default:
					cells = append(cells, "XJson ("+e.jsonTerm(v)+")")
				}
			}
			nCells += len(cells)
			rows = append(rows, "["+strings.Join(cells, ";")+"]")
		}
	case res.rawResults != nil:
		for _, d := range res.rawResults.DataResult {
			cells := []string{}
			for _, col := range req.RequestColumns {
				cells = append(cells, e.cell(d, col, hist))
				switch {
				case col.DataType == StringCol && col.StorageType == LocalStore && (col.Optional == NoFlags || d.dataStore.peer.HasFlag(col.Optional)):
					c10ClassifyString(d.dataString[col.Index], hist)
				case col.DataType == StringLargeCol && col.StorageType == LocalStore && (col.Optional == NoFlags || d.dataStore.peer.HasFlag(col.Optional)):
					c10ClassifyString(d.dataStringLarge[col.Index].String(), hist)
				case col.DataType == StringListCol && col.StorageType == LocalStore && (col.Optional == NoFlags || d.dataStore.peer.HasFlag(col.Optional)):
					if len(d.dataStringList[col.Index]) == 0 {
						hist("cell:empty-list")
					}
					for _, s := range d.dataStringList[col.Index] {
						c10ClassifyString(s, hist)
					}
				}
				hist("coltype:" + col.DataType.String() + "/" + map[StorageType]string{LocalStore: "local", RefStore: "ref", VirtualStore: "virtual"}[col.StorageType])
			}
			nCells += len(cells)
			rows = append(rows, "["+strings.Join(cells, ";")+"]")
		}
	}
	hdr := "None"
	if len(req.Stats) == 0 && (req.ColumnsHeaders || len(req.Columns) == 0) {
		names := []string{}
		for k, col := range req.RequestColumns {
			if k < len(req.Columns) {
				names = append(names, req.Columns[k])
			} else {
				names = append(names, col.Name)
			}
		}
		hdr = "(Some " + e.strList(names) + ")"
		hist("answer:with-header")
	}

	var buf bytes.Buffer
	if _, err = res.send(&buf); err != nil {
		// Response.Buffer failed (jsoniter refuses NaN / Inf): nothing was written, BuildResponseSend returns the
		// error and ClientConnection.processRequest answers with an error response
		if buf.Len() != 0 {
			goErr = "send failed after writing " + strconv.Itoa(buf.Len()) + " bytes: " + err.Error()
		}
		buf.Reset()
		_, _ = (&Response{code: ReturnCodeBadRequest, request: req, err: err}).send(&buf)
		obs.sent = append([]byte{}, buf.Bytes()...)
		obs.coq = fmt.Sprintf("OGet %s %s (ni %d) EErr %s", coqBool(req.KeepAlive), coqBool(req.ResponseFixed16), ReturnCodeBadRequest, e.bytes(obs.sent))
		hist("answer:error-400-unserialisable-float")
		if goErr == "" {
			goErr = c10GoSide(req.ResponseFixed16, true, obs.sent)
		}

		return obs, goErr
	}
	obs.sent = append([]byte{}, buf.Bytes()...)

	exp := ""
	if req.OutputFormat == OutputFormatWrappedJSON {
		failed := []string{}
		keys := []string{}
		for k := range res.failed {
			keys = append(keys, k)
		}
		sort.Strings(keys)
		for _, k := range keys {
			failed = append(failed, "("+e.str(k)+", "+e.str(strings.TrimSpace(res.failed[k]))+")")
			c10ClassifyString(res.failed[k], hist)
		}
		hist(fmt.Sprintf("failed:%d", min(len(keys), 3)))
		exp = fmt.Sprintf("(EWrapped %s [%s] [%s] %s %s)", hdr, strings.Join(rows, ";\n   "), strings.Join(failed, ";"), c10ZInt(int64(res.rowsScanned)), c10ZInt(int64(res.resultTotal)))
		hist("answer:wrapped_json")
	} else {
		exp = fmt.Sprintf("(EJson %s [%s])", hdr, strings.Join(rows, ";\n   "))
		hist("answer:json")
	}
	if len(rows) == 0 {
		hist("answer:empty-result")
	}
	if len(req.Stats) > 0 {
		hist("answer:stats")
	}
	obs.coq = fmt.Sprintf("OGet %s %s (ni %d) %s\n   %s", coqBool(req.KeepAlive), coqBool(req.ResponseFixed16), res.code, exp, e.bytes(obs.sent))
	if goErr == "" {
		goErr = c10GoSide(req.ResponseFixed16, false, obs.sent)
	}

	return obs, goErr
}

// ---- the sequence over a real unix socket ---------------------------------------------------

func c10SocketRun(lmd *Daemon, idx int, texts []string, obs []*c10Obs, pipeline bool, hist func(string)) (stream []byte, closed bool, note string) {
	listen := filepath.Join(vSockDir(), fmt.Sprintf("%d-c10-%d.sock", os.Getpid(), idx))
	os.Remove(listen)
	lmd.waitGroupInit.Add(1)
	listener := NewListener(lmd, listen)
	lmd.waitGroupInit.Wait()
	defer listener.Stop()

	conn, err := net.Dial("unix", listen)
	if err != nil {
		return nil, false, "dial: " + err.Error()
	}
	defer conn.Close()

	readN := func(n int, deadline time.Duration) (eof bool) {
		if n == 0 {
			return false
		}
		buf := make([]byte, n)
		got := 0
		_ = conn.SetReadDeadline(time.Now().Add(deadline))
		for got < n {
			k, rerr := conn.Read(buf[got:])
			got += k
			if rerr != nil {
				var ne net.Error
				if errors.As(rerr, &ne) && ne.Timeout() {
					note = "timeout waiting for an answer"
				} else {
					eof = true
				}

				break
			}
		}
		stream = append(stream, buf[:got]...)

		return eof
	}
	readAll := func(deadline time.Duration) (eof bool) {
		_ = conn.SetReadDeadline(time.Now().Add(deadline))
		rest, rerr := io.ReadAll(conn)
		stream = append(stream, rest...)
		if rerr != nil {
			var ne net.Error
			if errors.As(rerr, &ne) && ne.Timeout() {
				return false
			}
		}

		return true
	}

	// pipelining: only sequences of parsable requests (an unparsable one ends the connection with unread input)
	for i := range texts {
		if !obs[i].get && (obs[i].sent != nil || i == 0) {
			pipeline = false
		}
	}
	if pipeline {
		hist("socket:pipelined")
		if _, werr := conn.Write([]byte(strings.Join(texts, ""))); werr != nil {
			return stream, readAll(2 * time.Second), note
		}
	}
	for i, text := range texts {
		if pipeline {
			text = ""
		}
		if _, werr := conn.Write([]byte(text)); werr != nil {
			// the daemon has closed: whatever is left to read is read below
			closed = readAll(2 * time.Second)

			return stream, closed, note
		}
		switch {
		case obs[i].get:
			// the answer has the length of the one Response.send produced for the same request
			if readN(len(obs[i].sent), 10*time.Second) {
				return stream, true, note
			}
			if note != "" {
				return stream, false, note
			}
		case obs[i].sent != nil:
			// unparsable: error text, then the daemon closes
			closed = readAll(5 * time.Second)
			if !closed {
				note = "no close after an unparsable request"
			}

			return stream, closed, note
		default:
			// empty line: first on the connection -> error and close, later -> ignored
			if i == 0 {
				closed = readAll(5 * time.Second)

				return stream, closed, note
			}
			// no answer to wait for: give the daemon time to read the empty line on its own
			// (bytes that arrive in the same read as the empty line are dropped, see DESIGN appendix B: no pipelining)
			if !pipeline {
				time.Sleep(40 * time.Millisecond)
			}
		}
	}
	// is the connection still open? the daemon closes right after a non keep-alive answer: under load that
	// can take longer than the 150ms which are enough to see that a keep-alive connection stays open
	wait := 150 * time.Millisecond
	if n := len(obs); n > 0 && obs[n-1].get && obs[n-1].closes {
		wait = 5 * time.Second
	}
	closed = readAll(wait)
	hist(fmt.Sprintf("socket:closed=%v", closed))

	return stream, closed, note
}

// ---- driver -----------------------------------------------------------------------------------

func c10ApplyInjects(lmd *Daemon, in *c10Input) error {
	for key, h := range in.ErrHex {
		peer := lmd.PeerMap[key]
		msg, herr := hex.DecodeString(h)
		if peer == nil || herr != nil {
			return fmt.Errorf("errhex: bad entry %s", key)
		}
		peer.lastError.Set(string(msg))
	}
	for _, inj := range in.Inject {
		peer := lmd.PeerMap[inj.Backend]
		if peer == nil {
			return fmt.Errorf("inject: no backend %s", inj.Backend)
		}
		tn, err := NewTableName(inj.Table)
		if err != nil {
			return err
		}
		store, err := peer.GetDataStore(tn)
		if err != nil {
			continue // backend without data (down)
		}
		col := store.table.GetColumn(inj.Col)
		if col == nil || col.StorageType != LocalStore || inj.Row < 0 || inj.Row >= len(store.data) {
			return fmt.Errorf("inject: bad target %s.%s[%d]", inj.Table, inj.Col, inj.Row)
		}
		if col.Optional != NoFlags && !peer.HasFlag(col.Optional) {
			continue
		}
		row := store.data[inj.Row]
		switch col.DataType {
		case StringCol, StringLargeCol:
			unit, herr := hex.DecodeString(inj.Hex)
			if herr != nil {
				return herr
			}
			count := inj.Count
			if count <= 0 {
				count = 1
			}
			if count*len(unit) > 4<<20 {
				return fmt.Errorf("inject: too long")
			}
			val := strings.Repeat(string(unit), count)
			if col.DataType == StringLargeCol {
				row.dataStringLarge[col.Index] = *NewStringContainer(&val)
			} else {
				row.dataString[col.Index] = val
			}
		case StringListCol:
			l := []string{}
			for _, h := range inj.List {
				b, herr := hex.DecodeString(h)
				if herr != nil {
					return herr
				}
				l = append(l, string(b))
			}
			row.dataStringList[col.Index] = l
		default:
			return fmt.Errorf("inject: column %s is not a string column", inj.Col)
		}
	}

	return nil
}

func c10RunCase(idx int, in *c10Input, hist func(string)) (coq string, nontrivial bool) {
	e := &c10Emit{name: fmt.Sprintf("c%d", idx)}
	trivial := fmt.Sprintf("Definition c%d : case := mkCase true [] None.\n", idx)
	if in.DS == nil || len(in.Reqs) == 0 || len(in.Reqs) > 8 {
		return trivial, false
	}
	lmd, err := qeLoad(in.DS, qeWorkDir())
	if err != nil || lmd == nil {
		hist("invalid:load")

		return trivial, false
	}
	if err = c10ApplyInjects(lmd, in); err != nil {
		hist("invalid:inject: " + err.Error())

		return trivial, false
	}
	goOK := true
	obs := []*c10Obs{}
	terms := []string{}
	for _, text := range in.Reqs {
		o, goErr := e.sendOne(lmd, text, hist)
		if goErr != "" {
			goOK = false
			hist("GOSIDE: " + goErr)
		}
		obs = append(obs, o)
		terms = append(terms, o.coq)
		if o.get && len(o.sent) > 64 {
			nontrivial = true
		}
	}
	sock := "None"
	if in.Socket {
		stream, closed, note := c10SocketRun(lmd, idx, in.Reqs, obs, in.Pipeline, hist)
		if note != "" {
			hist(fmt.Sprintf("socket-note: case %d: %s (read %d bytes)", idx, note, len(stream)))
		}
		sock = fmt.Sprintf("(Some (%s, %s))", e.bytes(stream), coqBool(closed))
		hist(fmt.Sprintf("socket:requests=%d", len(in.Reqs)))
		nontrivial = nontrivial || len(in.Reqs) > 1
	}
	coq = e.pre.String() + fmt.Sprintf("Definition c%d : case := mkCase %s [\n  %s]\n  %s.\n", idx, coqBool(goOK), strings.Join(terms, ";\n  "), sock)

	return coq, nontrivial
}

func c10Main(args []string) int {
	// --shortcv: also group Stats by custom_variables although rows may have fewer custom variable values than names (DESIGN D23)
	// --rawutf8: also inject strings that are not valid UTF-8 into cached cells and backend error texts (notes/C10.md F1)
	shortCV, rawUTF8 := false, false
	rest := []string{}
	for _, a := range args {
		if a == "--shortcv" {
			shortCV = true

			continue
		}
		if a == "--rawutf8" {
			rawUTF8 = true

			continue
		}
		rest = append(rest, a)
	}
	flags := verifParseStreamFlags("c10frame", rest)
	meta := newVMeta("frame", "generated datasets (1-3 backends, qeGenDataset) with adversarial strings (quotes, backslashes, every control byte, 0x7f, U+2028/9, <>&, "+
		"non-ASCII, empty, JSON look-alikes) in string / string list / custom variable cells (duplicate names, surplus values"+
		", fewer values than names)"+map[bool]string{true: " incl. Stats grouped by custom_variables", false: ""}[shortCV]+map[bool]string{true: ", raw injections of invalid UTF-8 into cached cells and error texts", false: ""}[rawUTF8]+", one 1 MB string injected into a cached cell, backends down with adversarial error texts, strings in float columns (NaN, Inf); "+
		"1-6 requests per case over all cached tables + sites/backends/columns/tables: column lists incl. unknown/duplicate/reference/virtual columns or none, ColumnHeaders on/off, "+
		"json/wrapped_json/python, Stats with and without Columns, empty results, Limit/Offset, Backends incl. unknown ids, fixed16 on/off, unparsable requests, empty lines; "+
		"each request through Response.send into a buffer, 40% of the cases also as a keep-alive sequence over a real unix socket listener. "+
		"non-trivial: a data/stats answer longer than 64 bytes or a socket sequence of at least 2 requests; distinct by input")
	inputs := []*c10Input{}
	hist := func(k string) { meta.count(k) }
	if flags.replay != "" {
		vReadReplay(flags.replay, &inputs)
		for _, in := range inputs {
			if in != nil && in.DS != nil {
				in.DS.fixTypes()
			}
		}
	} else {
		rnd := newVRand(flags.seed)
		bigDone := false
		for i := 0; i < flags.n; i++ {
			inputs = append(inputs, c10GenInput(rnd.fork(), i, flags.tier, shortCV, rawUTF8, &bigDone, hist))
		}
	}
	var sb strings.Builder
	sb.WriteString("From Coq Require Import List Uint63.\nImport ListNotations.\nFrom LMD Require Import C10.Run.\nOpen Scope uint63_scope.\n")
	names := []string{}
	for i, in := range inputs {
		if in == nil {
			in = &c10Input{}
		}
		coq, nontrivial := c10RunCase(i, in, hist)
		sb.WriteString(coq)
		names = append(names, fmt.Sprintf("c%d", i))
		key, _ := json.Marshal(in)
		meta.add(string(key), nontrivial, in)
	}
	sb.WriteString("Definition cases : list case := " + coqList(names) + ".\n")
	sb.WriteString("Definition M := Eval vm_compute in mismatches cases.\nPrint M.\n")
	if err := os.WriteFile(flags.out, []byte(sb.String()), 0o644); err != nil {
		panic(err)
	}
	meta.write(flags.meta)

	return 0
}
