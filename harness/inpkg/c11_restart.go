//go:build verif

package lmd

// C11 stream `c11restart`: one real Peer against a scripted backend (vbackend.go) that
// restarts (new program_start / nagios_pid, next object set: hosts, services, groups,
// contacts, ... removed, added, renamed, with the same or other counts), changes its object
// set without restart, stops / resumes answering, and fails the k-th query of a rebuild
// (FailAfter(k, garbage|refuse|truncate), every k of the rebuild's queries is enumerated).
// The peer is single stepped like its updateLoop: periodicUpdate +
// initTablesIfRestartRequiredError, made due by shifting lastUpdate; the per-minute refresh,
// the full update / broken grace time and the host/service full scan are made due per tick by
// shifting lastTimeperiodUpdateMinute, lastFullUpdate, lastFullHostUpdate/lastFullServiceUpdate;
// "stale" shifts lastOnline. After every event the keys of all object tables (hosts with their
// alias, a static column only a rebuild refreshes), the status table's program_start / nagios_pid /
// program_version (they identify the backend process: part of the served set) and GET sites
// status/last_error are read through lmd; while a tick runs a second goroutine keeps asking
// `GET services / Columns: host_name description host_alias` and `GET status` and records the distinct answers.
// C11/Run.v compares with the model (always the correct order of side effects).

import (
	"context"
	"encoding/json"
	"errors"
	"fmt"
	"os"
	"sort"
	"strconv"
	"strings"
	"sync"
	"time"
)

var c11Tables = []string{"timeperiods", "contacts", "contactgroups", "commands", "hosts", "hostgroups", "services", "servicegroups", "comments", "downtimes"}

const (
	c11HostsIdx = 4
	c11SvcsIdx  = 6
)

type c11Dataset map[string][][2]string

type c11Event struct {
	Kind   string `json:"kind"` // restart change setok stale tick
	Ok     bool   `json:"ok,omitempty"`
	Mode   string `json:"mode,omitempty"` // setok false: garbage refuse truncate
	Minute bool   `json:"minute,omitempty"`
	Full   bool   `json:"full,omitempty"`
	Scan   bool   `json:"scan,omitempty"`
	Fault  *int   `json:"fault,omitempty"` // the rebuild of this tick fails at its k-th query
	FMode  string `json:"fmode,omitempty"`
	FKind  string `json:"fkind,omitempty"` // "" / after: every query from the k-th on fails (FailAfter); table: only the k-th
	// query of the rebuild fails (its table is answered with 404), all other table fetches succeed
}

type c11Input struct {
	Parallel bool         `json:"parallel,omitempty"` // MaxParallelPeerConnections 3: initAllTablesParallel instead of the serial rebuild
	Datasets []c11Dataset `json:"datasets"`
	Events   []c11Event   `json:"events"`
}

type c11Obs struct {
	status string
	err    bool
	tables [][][2]string // nil entry = failed
	failed []bool
	during []string // canonical answers of the concurrent reader ("F" = failed, otherwise sorted rows)
	duringRows map[string][][3]string
	srow    string   // GET status: "F" = failed, "E..." = unexpected answer, otherwise program_start \x00 nagios_pid \x00 program_version
	sduring []string // ... as the concurrent reader got it
}

func init() {
	verifRegister("c11restart", "C11: backend restarts / object set changes / failing rebuilds against a real peer", c11Main)
}

func c11Mode(name string) vMode {
	switch name {
	case "refuse":
		return vModeRefuse
	case "truncate":
		return vModeTruncate
	default:
		return vModeGarbage
	}
}

func c11StatusName(st PeerStatus) string {
	switch st {
	case PeerStatusUp:
		return "Up"
	case PeerStatusWarning:
		return "Warning"
	case PeerStatusDown:
		return "Down"
	case PeerStatusBroken:
		return "Broken"
	case PeerStatusPending:
		return "Pending"
	default:
		return "Syncing"
	}
}

// c11StatusRow: what the status table of the backend process number ident says about the process.
type c11Status struct {
	start, pid int64
	version    string
}

func c11StatusRow(ident int) c11Status {
	return c11Status{start: int64(1700000000 + 1000*ident), pid: int64(4000 + ident), version: fmt.Sprintf("1.4.2-process%d", ident)}
}

// ---- scripted dataset ---------------------------------------------------------------------

func c11Names(l [][2]string) []interface{} {
	res := make([]interface{}, 0, len(l))
	for _, k := range l {
		res = append(res, k[0])
	}

	return res
}

func c11Clone(tab *vTable, vals map[string]interface{}) []interface{} {
	row := append([]interface{}{}, tab.Rows[0]...)
	for col, val := range vals {
		idx := tab.colIndex(col)
		if idx < 0 {
			panic("c11: template has no column " + col)
		}
		row[idx] = val
	}

	return row
}

// c11Build turns an object set description into backend tables. Every host / service row is a
// copy of one template row: all dynamic columns (state, last_check, ...) are the same for all
// objects of all versions, only keys, aliases and membership lists differ.
func c11Build(spec c11Dataset, ident int) map[string]*vTable {
	tmpl := vDefaultDataset(newVRand(7), 1, 1)
	res := map[string]*vTable{}
	for name, tab := range tmpl {
		res[name] = &vTable{Cols: tab.Cols}
	}
	res["status"].Rows = [][]interface{}{c11Clone(tmpl["status"], map[string]interface{}{
		"program_start": float64(c11StatusRow(ident).start), "nagios_pid": float64(c11StatusRow(ident).pid), "program_version": c11StatusRow(ident).version})}
	for i, k := range spec["timeperiods"] {
		res["timeperiods"].Rows = append(res["timeperiods"].Rows, c11Clone(tmpl["timeperiods"], map[string]interface{}{"name": k[0], "alias": k[0], "id": float64(i)}))
	}
	for _, k := range spec["contacts"] {
		res["contacts"].Rows = append(res["contacts"].Rows, c11Clone(tmpl["contacts"], map[string]interface{}{"name": k[0], "alias": k[0]}))
	}
	for _, k := range spec["contactgroups"] {
		res["contactgroups"].Rows = append(res["contactgroups"].Rows, c11Clone(tmpl["contactgroups"], map[string]interface{}{"name": k[0], "alias": k[0], "members": c11Names(spec["contacts"])}))
	}
	for _, k := range spec["commands"] {
		res["commands"].Rows = append(res["commands"].Rows, c11Clone(tmpl["commands"], map[string]interface{}{"name": k[0]}))
	}
	svcMembers := []interface{}{}
	for _, k := range spec["services"] {
		svcMembers = append(svcMembers, []interface{}{k[0], k[1]})
	}
	for _, k := range spec["hosts"] {
		descs := []interface{}{}
		for _, sv := range spec["services"] {
			if sv[0] == k[0] {
				descs = append(descs, sv[1])
			}
		}
		res["hosts"].Rows = append(res["hosts"].Rows, c11Clone(tmpl["hosts"], map[string]interface{}{"name": k[0], "alias": k[1], "display_name": k[0],
			"contacts": c11Names(spec["contacts"]), "contact_groups": c11Names(spec["contactgroups"]), "groups": c11Names(spec["hostgroups"]),
			"services": descs, "num_services": float64(len(descs))}))
	}
	for _, k := range spec["hostgroups"] {
		res["hostgroups"].Rows = append(res["hostgroups"].Rows, c11Clone(tmpl["hostgroups"], map[string]interface{}{"name": k[0], "alias": k[0],
			"members": c11Names(spec["hosts"]), "num_hosts": float64(len(spec["hosts"])), "num_services": float64(len(spec["services"]))}))
	}
	for _, k := range spec["services"] {
		res["services"].Rows = append(res["services"].Rows, c11Clone(tmpl["services"], map[string]interface{}{"host_name": k[0], "description": k[1], "display_name": k[1],
			"contacts": c11Names(spec["contacts"]), "contact_groups": c11Names(spec["contactgroups"]), "groups": c11Names(spec["servicegroups"])}))
	}
	for _, k := range spec["servicegroups"] {
		res["servicegroups"].Rows = append(res["servicegroups"].Rows, c11Clone(tmpl["servicegroups"], map[string]interface{}{"name": k[0], "alias": k[0],
			"members": svcMembers, "num_services": float64(len(spec["services"]))}))
	}
	firstHost := ""
	if len(spec["hosts"]) > 0 {
		firstHost = spec["hosts"][0][0]
	}
	if firstHost != "" {
		// the templates of comments/downtimes come from a dataset with one host
		tmplC := vDefaultDataset(newVRand(7), 1, 0)
		for _, k := range spec["comments"] {
			id, _ := strconv.ParseFloat(k[0], 64)
			res["comments"].Rows = append(res["comments"].Rows, c11Clone(tmplC["comments"], map[string]interface{}{"id": id, "host_name": firstHost}))
		}
		for _, k := range spec["downtimes"] {
			id, _ := strconv.ParseFloat(k[0], 64)
			res["downtimes"].Rows = append(res["downtimes"].Rows, c11Clone(tmplC["downtimes"], map[string]interface{}{"id": id, "host_name": firstHost}))
		}
	}

	return res
}

// ---- driving the peer ---------------------------------------------------------------------

type c11Runner struct {
	ctx      context.Context
	lmd      *Daemon
	peer     *Peer
	backend  *vBackend
	in       *c11Input
	ver      int
	ident    int
	baseMode vMode
	notes    []string
	queries  []string // tables of the queries of a rebuild, in the order of the serial rebuild (measured)
}

func (r *c11Runner) note(format string, args ...interface{}) {
	r.notes = append(r.notes, fmt.Sprintf(format, args...))
}

func c11RestartRequired(err error) bool {
	var peerErr *PeerError

	return err != nil && errors.As(err, &peerErr) && peerErr.kind == RestartRequiredError
}

// keysQuery returns the rows of a wrapped_json answer or failed.
func (r *c11Runner) keysQuery(text string, width int) (rows [][]string, failed bool, err error) {
	out, err := vQuery(r.lmd, text)
	if err != nil {
		return nil, false, err
	}
	var res struct {
		Data   [][]interface{}   `json:"data"`
		Failed map[string]string `json:"failed"`
	}
	if err = json.Unmarshal(out, &res); err != nil {
		return nil, false, err
	}
	if _, ok := res.Failed["p"]; ok {
		return nil, true, nil
	}
	for _, row := range res.Data {
		if len(row) != width {
			return nil, false, fmt.Errorf("row of width %d", len(row))
		}
		cells := make([]string, width)
		for i, c := range row {
			if f, isNum := c.(float64); isNum {
				cells[i] = strconv.FormatInt(int64(f), 10)
			} else {
				cells[i] = fmt.Sprintf("%v", c)
			}
		}
		rows = append(rows, cells)
	}

	return rows, false, nil
}

func c11Columns(table string) string {
	switch table {
	case "hosts":
		return "name alias"
	case "services":
		return "host_name description"
	case "comments", "downtimes":
		return "id"
	default:
		return "name"
	}
}

// statusQuery asks lmd for the status row of the backend.
func (r *c11Runner) statusQuery() string {
	rows, failed, err := r.keysQuery("GET status\nColumns: program_start nagios_pid program_version\nOutputFormat: wrapped_json\n\n", 3)
	switch {
	case err != nil:
		return "E:" + err.Error()
	case failed:
		return "F"
	case len(rows) != 1:
		return fmt.Sprintf("E:%d status rows", len(rows))
	default:
		return strings.Join(rows[0], "\x00")
	}
}

func (r *c11Runner) observe() c11Obs {
	obs := c11Obs{status: "?"}
	out, err := vQuery(r.lmd, "GET sites\nColumns: status last_error\nOutputFormat: json\n\n")
	var rows [][]interface{}
	if err == nil && json.Unmarshal(out, &rows) == nil && len(rows) == 1 && len(rows[0]) == 2 {
		obs.status = c11StatusName(PeerStatus(int32(vToFloat(rows[0][0]))))
		obs.err = fmt.Sprintf("%v", rows[0][1]) != ""
	} else {
		r.note("sites query failed")
	}
	obs.srow = r.statusQuery()
	for _, table := range c11Tables {
		cols := c11Columns(table)
		keys, failed, err := r.keysQuery("GET "+table+"\nColumns: "+cols+"\nOutputFormat: wrapped_json\n\n", len(strings.Fields(cols)))
		if err != nil {
			r.note("query %s: %s", table, err.Error())
			failed = true
		}
		list := make([][2]string, 0, len(keys))
		for _, k := range keys {
			pair := [2]string{k[0], ""}
			if len(k) > 1 {
				pair[1] = k[1]
			}
			list = append(list, pair)
		}
		obs.tables = append(obs.tables, list)
		obs.failed = append(obs.failed, failed)
	}

	return obs
}

// reader keeps asking for the services joined with their host's alias until stop is closed.
func (r *c11Runner) reader(stop chan struct{}, done chan struct{}, obs *c11Obs) {
	defer close(done)
	obs.duringRows = map[string][][3]string{}
	for {
		select {
		case <-stop:
			return
		default:
		}
		rows, failed, err := r.keysQuery("GET services\nColumns: host_name description host_alias\nOutputFormat: wrapped_json\n\n", 3)
		key := "F"
		list := [][3]string{}
		switch {
		case err != nil:
			key = "E:" + err.Error()
		case !failed:
			parts := []string{}
			for _, row := range rows {
				list = append(list, [3]string{row[0], row[1], row[2]})
				parts = append(parts, strings.Join(row, "\x00"))
			}
			sort.Strings(parts)
			key = "R" + strings.Join(parts, "\x01")
		}
		if _, seen := obs.duringRows[key]; !seen && len(obs.during) < 8 {
			obs.during = append(obs.during, key)
			obs.duringRows[key] = list
		}
		// ... and for the status row of the same backend
		srow := r.statusQuery()
		known := false
		for _, s := range obs.sduring {
			known = known || s == srow
		}
		if !known && len(obs.sduring) < 8 {
			obs.sduring = append(obs.sduring, srow)
		}
	}
}

func (r *c11Runner) tick(ev *c11Event, obs *c11Obs) {
	peer := r.peer
	now := currentUnixTime()
	peer.lastUpdate.Set(peer.lastUpdate.Get() - float64(r.lmd.Config.UpdateInterval) - 1)
	// keep clear of the wall clock minute boundary
	for time.Now().Second() == 59 && time.Now().Nanosecond() > 300e6 {
		time.Sleep(50 * time.Millisecond)
	}
	minute := int32(time.Now().Minute())
	if ev.Minute {
		minute = (minute + 1) % 60
	}
	peer.lastTimeperiodUpdateMinute.Store(minute)
	savedFull := peer.lastFullUpdate.Get()
	if ev.Full {
		peer.lastFullUpdate.Set(savedFull - 2000)
	}
	savedHost, savedSvc := peer.lastFullHostUpdate.Get(), peer.lastFullServiceUpdate.Get()
	if ev.Scan {
		peer.lastFullHostUpdate.Set(now - 100)
		peer.lastFullServiceUpdate.Set(now - 100)
	}

	fmode := c11Mode(ev.FMode)
	armed := false
	var removedName string
	var removedTable *vTable
	errorsBefore := peer.errorCount.Load()
	queriesBefore := r.backend.QueryCount()
	// arm makes the k-th query (from 0) of the rebuild that starts after `offset` more queries fail
	arm := func(offset int) {
		armed = true
		errorsBefore = peer.errorCount.Load()
		queriesBefore = r.backend.QueryCount()
		if ev.FKind != "table" {
			r.backend.FailAfter(*ev.Fault+offset, fmode)

			return
		}
		if *ev.Fault < 0 || *ev.Fault >= len(r.queries) {
			return
		}
		removedName = r.queries[*ev.Fault]
		r.backend.WithLock(func() {
			removedTable = r.backend.tables[removedName]
			delete(r.backend.tables, removedName)
		})
	}
	if ev.Fault != nil && r.baseMode == vModeOK {
		state := peer.peerState.Get()
		data := peer.data.Load()
		switch {
		case state == PeerStatusDown || state == PeerStatusPending || (state != PeerStatusBroken && data == nil):
			// periodicUpdate itself starts the rebuild
			arm(0)
		case state == PeerStatusBroken:
			// handleBrokenPeer asks for the status first
			arm(1)
		}
	}

	stop, done := make(chan struct{}), make(chan struct{})
	go r.reader(stop, done, obs)
	_, err := peer.periodicUpdate(r.ctx)
	if c11RestartRequired(err) && ev.Fault != nil && r.baseMode == vModeOK && !armed {
		arm(0)
	}
	_ = peer.initTablesIfRestartRequiredError(r.ctx, err)
	close(stop)
	<-done
	if armed && r.in.Parallel {
		r.waitForStragglers(ev, queriesBefore, errorsBefore)
	}
	r.backend.SetMode(r.baseMode)
	if removedTable != nil {
		r.backend.WithLock(func() { r.backend.tables[removedName] = removedTable })
	}

	if ev.Full && peer.lastFullUpdate.Get() == savedFull-2000 {
		peer.lastFullUpdate.Set(savedFull)
	}
	if ev.Scan {
		if peer.lastFullHostUpdate.Get() == now-100 {
			peer.lastFullHostUpdate.Set(savedHost)
		}
		if peer.lastFullServiceUpdate.Get() == now-100 {
			peer.lastFullServiceUpdate.Set(savedSvc)
		}
	}
}

// waitForStragglers: a parallel rebuild returns with the first failed table fetch while the other fetches are still
// running. Their only effect on the peer is setNextAddrFromErr for each further failing query (idempotent after the
// first one); wait until all of them happened so that none lands in a later step of the history.
func (r *c11Runner) waitForStragglers(ev *c11Event, queriesBefore int, errorsBefore int64) {
	nq := len(r.queries)
	k := *ev.Fault
	// did the parallel phase start at all? (a broken peer may only have asked for the status)
	log := r.backend.QueryLog()
	started := false
	for _, q := range log[min(queriesBefore, len(log)):] {
		if !strings.HasPrefix(q, "GET status") {
			started = true
		}
	}
	if !started || k < 1 || k >= nq {
		return
	}
	// every query from the k-th on fails; the failure of `GET columns` is swallowed without touching the peer
	expected := int64(0)
	for _, name := range r.queries[k:] {
		if name != "columns" {
			expected++
		}
	}
	if ev.FKind == "table" {
		expected = 1
	}
	deadline := time.Now().Add(3 * time.Second)
	for r.peer.errorCount.Load() < errorsBefore+expected || r.backend.QueryCount() < queriesBefore+nq {
		if time.Now().After(deadline) {
			r.note("stragglers of a parallel rebuild did not finish: k=%d kind=%q mode=%q errors %d of %d queries %d of %d", k, ev.FKind, ev.FMode, r.peer.errorCount.Load()-errorsBefore, expected, r.backend.QueryCount()-queriesBefore, nq)

			return
		}
		time.Sleep(time.Millisecond)
	}
	time.Sleep(2 * time.Millisecond)
}

func c11RunCase(idx int, in *c11Input) (obs []c11Obs, notes []string) {
	backend := newVBackend(fmt.Sprintf("c11-%d", idx))
	defer backend.Close()
	lmd := verifNewDaemon()
	lmd.Config.MaxParallelPeerConnections = 1
	if in.Parallel {
		lmd.Config.MaxParallelPeerConnections = 3
	}
	lmd.Config.BackendKeepAlive = false
	lmd.Config.FullUpdateInterval = 1000
	lmd.Config.StaleBackendTimeout = 30
	run := &c11Runner{ctx: context.Background(), lmd: lmd, backend: backend, in: in, ident: 1, baseMode: vModeOK, queries: c11RebuildQueries}
	backend.SetDataset(c11Build(in.Datasets[0], run.ident))
	run.peer = vNewPeer(lmd, "p", []string{backend.Addr()}, nil)
	defer func() {
		// a panic inside lmd: the remaining events get an observation no model state matches
		if rec := recover(); rec != nil {
			run.note("panic: %v", rec)
			for len(obs) < len(in.Events) {
				obs = append(obs, c11Obs{status: "Pending", err: false, tables: [][][2]string{}, failed: []bool{}})
			}
			notes = run.notes
		}
	}()
	for i := range in.Events {
		ev := &in.Events[i]
		step := c11Obs{}
		switch ev.Kind {
		case "restart", "change":
			if run.ver+1 >= len(in.Datasets) {
				panic("c11: not enough datasets")
			}
			run.ver++
			if ev.Kind == "restart" {
				run.ident++
			}
			backend.SetDataset(c11Build(in.Datasets[run.ver], run.ident))
		case "setok":
			run.baseMode = vModeOK
			if !ev.Ok {
				run.baseMode = c11Mode(ev.Mode)
			}
			backend.SetMode(run.baseMode)
		case "stale":
			if last := run.peer.lastOnline.Get(); last > 0 {
				run.peer.lastOnline.Set(last - 1000)
			}
		case "tick":
			run.tick(ev, &step)
		default:
			panic("c11: unknown event " + ev.Kind)
		}
		after := run.observe()
		after.during, after.duringRows, after.sduring = step.during, step.duringRows, step.sduring
		obs = append(obs, after)
	}

	return obs, run.notes
}

// c11Measure counts the queries of a rebuild: all of them, and the leading ones for the status table (a failure of
// the `GET columns` query that follows is swallowed by checkAvailableTables, the rebuild goes on and fails at the next query).
var c11RebuildQueries []string

func c11Measure() (statusQueries, allQueries int) {
	backend := newVBackend("c11-measure")
	defer backend.Close()
	backend.SetDataset(c11Build(c11GenDataset(newVRand(3), 0), 1))
	lmd := verifNewDaemon()
	lmd.Config.MaxParallelPeerConnections = 1
	peer := vNewPeer(lmd, "p", []string{backend.Addr()}, nil)
	if err := peer.InitAllTables(context.Background()); err != nil {
		panic("c11: measuring the rebuild failed: " + err.Error())
	}
	log := backend.QueryLog()
	statusQueries = len(log)
	c11RebuildQueries = nil
	for _, q := range log {
		fields := strings.Fields(strings.SplitN(q, "\n", 2)[0])
		if len(fields) != 2 {
			panic("c11: unexpected query " + q)
		}
		c11RebuildQueries = append(c11RebuildQueries, fields[1])
	}
	for i, q := range log {
		if !strings.HasPrefix(q, "GET status") {
			statusQueries = i

			break
		}
	}

	return statusQueries, len(log)
}

// c11RefreshTables lists the indices of the object tables a full update compares row counts for.
func c11RefreshTables() (minute, full []int) {
	backend := newVBackend("c11-tables")
	defer backend.Close()
	backend.SetDataset(c11Build(c11GenDataset(newVRand(3), 0), 1))
	lmd := verifNewDaemon()
	peer := vNewPeer(lmd, "p", []string{backend.Addr()}, nil)
	if err := peer.InitAllTables(context.Background()); err != nil {
		panic("c11: " + err.Error())
	}
	data := peer.data.Load()
	index := map[string]int{}
	for i, t := range c11Tables {
		index[t] = i
	}
	for _, name := range Objects.UpdateTables {
		store := data.Get(name)
		skip, _ := data.skipTableUpdate(store, name)
		if i, ok := index[name.String()]; ok && !skip {
			full = append(full, i)
		}
	}
	// peer.go periodicTimeperiodsUpdate
	for _, name := range []TableName{TableTimeperiods, TableHostgroups, TableServicegroups} {
		minute = append(minute, index[name.String()])
	}

	return minute, full
}

// ---- Coq emission ---------------------------------------------------------------------

func c11CoqPairs(l [][2]string) string {
	parts := make([]string, 0, len(l))
	for _, k := range l {
		parts = append(parts, fmt.Sprintf("P %s %s", coqStr(k[0]), coqStr(k[1])))
	}

	return coqList(parts)
}

func c11CoqNats(l []int) string {
	parts := make([]string, 0, len(l))
	for _, v := range l {
		parts = append(parts, strconv.Itoa(v)+"%nat")
	}

	return coqList(parts)
}

func c11CoqEvent(ev *c11Event) string {
	switch ev.Kind {
	case "restart":
		return "ERestart"
	case "change":
		return "EChange"
	case "setok":
		return "ESetOk " + coqBool(ev.Ok)
	case "stale":
		return "EStale"
	default:
		fault := "None"
		if ev.Fault != nil {
			fault = fmt.Sprintf("(Some %d%%nat)", *ev.Fault)
		}

		return fmt.Sprintf("ETick (mkTF %s %s %s %s)", coqBool(ev.Minute), coqBool(ev.Full), coqBool(ev.Scan), fault)
	}
}

// c11Intern shares textually identical sub terms of one case (observations repeat a lot): the term is bound
// once to a name and referenced afterwards. Pure let-binding of emitted text, nothing is compared here.
type c11Intern struct {
	prefix string
	typ    string
	names  map[string]string
	defs   strings.Builder
}

func (n *c11Intern) ref(term string) string {
	if len(term) < 24 {
		return term
	}
	if name, ok := n.names[term]; ok {
		return name
	}
	name := fmt.Sprintf("%s%d", n.prefix, len(n.names))
	n.names[term] = name
	fmt.Fprintf(&n.defs, "Definition %s : %s := %s.\n", name, n.typ, term)

	return name
}

// c11CoqSRow renders an observed status row as [option srow]; an unexpected answer becomes a row no process has.
func c11CoqSRow(s string) string {
	if s == "F" {
		return "None"
	}
	parts := strings.Split(s, "\x00")
	if len(parts) != 3 || strings.HasPrefix(s, "E:") {
		return fmt.Sprintf("(Some (SR 0 0 %s))", coqStr("unexpected: "+s))
	}
	start, err1 := strconv.ParseUint(parts[0], 10, 63)
	pid, err2 := strconv.ParseUint(parts[1], 10, 63)
	if err1 != nil || err2 != nil {
		return fmt.Sprintf("(Some (SR 0 0 %s))", coqStr("unexpected: "+s))
	}

	return fmt.Sprintf("(Some (SR %d %d %s))", start, pid, coqStr(parts[2]))
}

func c11Coq(idx int, in *c11Input, obs []c11Obs, ns, nq int, minute, full []int) string {
	tabIntern := &c11Intern{prefix: fmt.Sprintf("c%d_t", idx), typ: "option (list (str * str))", names: map[string]string{}}
	durIntern := &c11Intern{prefix: fmt.Sprintf("c%d_d", idx), typ: "option (list key3)", names: map[string]string{}}
	dsets := []string{}
	for _, ds := range in.Datasets {
		tabs := []string{}
		for _, t := range c11Tables {
			tabs = append(tabs, c11CoqPairs(ds[t]))
		}
		dsets = append(dsets, coqList(tabs))
	}
	events := []string{}
	for i := range in.Events {
		events = append(events, c11CoqEvent(&in.Events[i]))
	}
	os := []string{}
	for _, o := range obs {
		tabs := []string{}
		for i, t := range o.tables {
			if o.failed[i] {
				tabs = append(tabs, "None")
			} else {
				tabs = append(tabs, tabIntern.ref("Some "+c11CoqPairs(t)))
			}
		}
		during := []string{}
		for _, key := range o.during {
			switch {
			case key == "F":
				during = append(during, "None")
			case strings.HasPrefix(key, "E:"):
				// a reader error is never expected: emit an answer no version has
				during = append(during, fmt.Sprintf("Some [T %s [] []]", coqStr("reader error "+key)))
			default:
				rows := []string{}
				for _, row := range o.duringRows[key] {
					rows = append(rows, fmt.Sprintf("T %s %s %s", coqStr(row[0]), coqStr(row[1]), coqStr(row[2])))
				}
				during = append(during, durIntern.ref("Some "+coqList(rows)))
			}
		}
		sduring := []string{}
		for _, s := range o.sduring {
			sduring = append(sduring, c11CoqSRow(s))
		}
		os = append(os, fmt.Sprintf("mkObs %s %s %s %s %s %s", o.status, coqBool(o.err), coqList(tabs), coqList(during), c11CoqSRow(o.srow), coqList(sduring)))
	}

	// the status row of every backend process of this history (index = identity, 0 is never used)
	srows := []string{"SR 0 0 []"}
	ident := 1
	srows = append(srows, fmt.Sprintf("SR %d %d %s", c11StatusRow(ident).start, c11StatusRow(ident).pid, coqStr(c11StatusRow(ident).version)))
	for _, ev := range in.Events {
		if ev.Kind == "restart" {
			ident++
			srows = append(srows, fmt.Sprintf("SR %d %d %s", c11StatusRow(ident).start, c11StatusRow(ident).pid, coqStr(c11StatusRow(ident).version)))
		}
	}

	return tabIntern.defs.String() + durIntern.defs.String() +
		fmt.Sprintf("Definition c%d : case := mkCase %d%%nat %d%%nat %s %s %d%%nat %d%%nat\n %s\n %s\n %s\n %s.\n", idx, ns, nq, c11CoqNats(minute), c11CoqNats(full),
			c11HostsIdx, c11SvcsIdx, coqList(dsets), coqList(srows), coqList(events), coqList(os))
}

// ---- generator ------------------------------------------------------------------------

var c11Pools = map[string][]string{
	"timeperiods":   {"workhours", "nonwork", "none", "Wochenende"},
	"contacts":      {"admin", "oper", "Jörg", "guest"},
	"contactgroups": {"admins", "everyone", "ops"},
	"commands":      {"check-host-alive", "check_dummy", "check_http", "notify-by-email"},
	"hosts":         {"alpha", "Beta", "db.prod", "zürich", "h5", "h6", "web-01"},
	"hostgroups":    {"allhosts", "linux", "prod", "Äpfel"},
	"svcdesc":       {"ping", "http", "disk /", "cpu load", "ssh"},
	"servicegroups": {"allservices", "web", "os"},
}

func c11Subset(r *vRand, pool []string, minLen int) []string {
	res := []string{}
	for _, n := range pool {
		if r.chance(1, 2) {
			res = append(res, n)
		}
	}
	for len(res) < minLen {
		n := vPick(r, pool)
		dup := false
		for _, x := range res {
			dup = dup || x == n
		}
		if !dup {
			res = append(res, n)
		}
	}

	return res
}

func c11Plain(names []string) [][2]string {
	res := make([][2]string, 0, len(names))
	for _, n := range names {
		res = append(res, [2]string{n, ""})
	}

	return res
}

// c11GenDataset draws a complete object set; ver tags the aliases (a static column).
func c11GenDataset(r *vRand, ver int) c11Dataset {
	ds := c11Dataset{}
	ds["timeperiods"] = append([][2]string{{"24x7", ""}}, c11Plain(c11Subset(r, c11Pools["timeperiods"], 0))...)
	ds["contacts"] = c11Plain(c11Subset(r, c11Pools["contacts"], 1))
	ds["contactgroups"] = c11Plain(c11Subset(r, c11Pools["contactgroups"], 0))
	ds["commands"] = c11Plain(c11Subset(r, c11Pools["commands"], 1))
	hosts := c11Subset(r, c11Pools["hosts"], 0)
	for _, h := range hosts {
		ds["hosts"] = append(ds["hosts"], [2]string{h, fmt.Sprintf("v%d %s", ver, h)})
		for _, d := range c11Pools["svcdesc"] {
			if r.chance(1, 4) {
				ds["services"] = append(ds["services"], [2]string{h, d})
			}
		}
	}
	ds["hostgroups"] = c11Plain(c11Subset(r, c11Pools["hostgroups"], 0))
	ds["servicegroups"] = c11Plain(c11Subset(r, c11Pools["servicegroups"], 0))
	if len(hosts) > 0 {
		for i := range r.intn(3) {
			ds["comments"] = append(ds["comments"], [2]string{strconv.Itoa(10*ver + i + 1), ""})
		}
		for i := range r.intn(2) {
			ds["downtimes"] = append(ds["downtimes"], [2]string{strconv.Itoa(10*ver + i + 1), ""})
		}
	}
	for _, t := range c11Tables {
		if ds[t] == nil {
			ds[t] = [][2]string{}
		}
	}

	return ds
}

func c11CopyDataset(ds c11Dataset) c11Dataset {
	res := c11Dataset{}
	for k, v := range ds {
		res[k] = append([][2]string{}, v...)
	}

	return res
}

// c11SameCount renames objects and re-tags the aliases but keeps every table's row count.
func c11SameCount(r *vRand, prev c11Dataset, ver int) c11Dataset {
	ds := c11CopyDataset(prev)
	used := map[string]bool{}
	for _, h := range ds["hosts"] {
		used[h[0]] = true
	}
	rename := map[string]string{}
	for i, h := range ds["hosts"] {
		name := h[0]
		if r.chance(1, 2) {
			for _, cand := range c11Pools["hosts"] {
				if !used[cand] {
					used[cand] = true
					rename[name] = cand
					name = cand

					break
				}
			}
		}
		ds["hosts"][i] = [2]string{name, fmt.Sprintf("v%d %s", ver, name)}
	}
	for i, sv := range ds["services"] {
		if n, ok := rename[sv[0]]; ok {
			ds["services"][i] = [2]string{n, sv[1]}
		}
	}
	for _, t := range []string{"hostgroups", "contacts", "commands"} {
		if len(ds[t]) > 0 && r.chance(1, 3) {
			ds[t][r.intn(len(ds[t]))] = [2]string{fmt.Sprintf("%s-v%d", t[:2], ver), ""}
		}
	}

	return ds
}

// c11NextDataset derives the next object set. keepEntries: comments/downtimes stay (a change without restart).
func c11NextDataset(r *vRand, prev c11Dataset, ver int, sameCount, keepEntries bool) c11Dataset {
	var ds c11Dataset
	if sameCount {
		ds = c11SameCount(r, prev, ver)
	} else {
		ds = c11GenDataset(r, ver)
	}
	if keepEntries {
		ds["comments"], ds["downtimes"] = prev["comments"], prev["downtimes"]
		if len(ds["hosts"]) == 0 && (len(ds["comments"]) > 0 || len(ds["downtimes"]) > 0) {
			ds["hosts"] = append(ds["hosts"], [2]string{"alpha", fmt.Sprintf("v%d alpha", ver)})
		}
	} else if sameCount {
		// a restart hands out new ids
		for i := range ds["comments"] {
			ds["comments"][i] = [2]string{strconv.Itoa(10*ver + i + 1), ""}
		}
		for i := range ds["downtimes"] {
			ds["downtimes"][i] = [2]string{strconv.Itoa(10*ver + i + 1), ""}
		}
	}

	return ds
}

var c11FModes = []string{"garbage", "refuse", "truncate"}

func c11Gen(r *vRand, nq int) *c11Input {
	in := &c11Input{Datasets: []c11Dataset{c11GenDataset(r, 0)}, Parallel: r.chance(2, 5)}
	next := func(kind string) {
		prev := in.Datasets[len(in.Datasets)-1]
		in.Datasets = append(in.Datasets, c11NextDataset(r, prev, len(in.Datasets), r.chance(1, 2), kind == "change"))
		in.Events = append(in.Events, c11Event{Kind: kind})
	}
	tick := func(faulty bool) {
		ev := c11Event{Kind: "tick", Minute: r.chance(1, 4), Full: r.chance(1, 6), Scan: r.chance(1, 5)}
		if faulty {
			k := r.intn(nq + 2)
			ev.Fault = &k
			ev.FMode = vPick(r, c11FModes)
			if r.chance(1, 2) {
				// exactly one table fetch of the rebuild fails (the `GET columns` query cannot be taken away)
				ev.FKind = "table"
				if k == 1 {
					k = 2 + r.intn(nq-2)
				}
			} else if in.Parallel && ev.FMode == "refuse" {
				// refused connects of straggling fetches leave no trace to wait for
				ev.FMode = "garbage"
			}
		}
		in.Events = append(in.Events, ev)
	}
	if !r.chance(1, 8) {
		in.Events = append(in.Events, c11Event{Kind: "tick"})
	}
	ok := true
	n := 5 + r.intn(10)
	for range n {
		switch k := r.intn(100); {
		case k < 16:
			next("restart")
		case k < 26:
			next("change")
		case k < 34:
			ok = !ok || r.chance(1, 3)
			ev := c11Event{Kind: "setok", Ok: ok}
			if !ok {
				// an outage: every query fails. "truncate" is no outage for the broken peer's status query, which is
				// sent without ResponseHeader: fixed16 - cutting its tiny reply only removes the closing bracket and
				// lmd's JSON reader accepts that; truncation stays a fault of rebuild queries (all carry fixed16)
				ev.Mode = vPick(r, []string{"garbage", "refuse"})
			}
			in.Events = append(in.Events, ev)
		case k < 41:
			in.Events = append(in.Events, c11Event{Kind: "stale"})
		default:
			tick(r.chance(2, 5))
		}
	}
	// recovery
	if !ok {
		in.Events = append(in.Events, c11Event{Kind: "setok", Ok: true})
	}
	in.Events = append(in.Events, c11Event{Kind: "tick"}, c11Event{Kind: "tick", Minute: true})

	return in
}

// c11Enumerate: a restart whose rebuild fails at every query k with every failure mode, with the same and
// with other object counts, with and without the stale timeout expiring first, then recovery.
func c11Enumerate(r *vRand, nq int) []*c11Input {
	res := []*c11Input{}
	for k := 0; k <= nq; k++ {
		for _, fmode := range c11FModes {
			for _, same := range []bool{true, false} {
				for _, stale := range []bool{false, true} {
					fault := k
					first := c11GenDataset(r, 0)
					for len(first["hosts"]) == 0 {
						first = c11GenDataset(r, 0)
					}
					in := &c11Input{Datasets: []c11Dataset{first, c11NextDataset(r, first, 1, same, false)}}
					in.Events = append(in.Events, c11Event{Kind: "tick"}, c11Event{Kind: "restart"})
					if stale {
						in.Events = append(in.Events, c11Event{Kind: "stale"})
					}
					in.Events = append(in.Events, c11Event{Kind: "tick", Fault: &fault, FMode: fmode}, c11Event{Kind: "tick"}, c11Event{Kind: "tick"})
					res = append(res, in)
				}
			}
		}
	}

	return res
}

// c11EnumerateTables: exactly ONE table fetch of a rebuild fails - every table, early and late ones - while all
// others succeed, with the serial and with the parallel rebuild (initAllTablesParallel), after a restart (same /
// other counts, stale or not) and during the very first synchronisation; then recovery. Plus the parallel rebuild
// with every query from the k-th on failing.
func c11EnumerateTables(r *vRand, nq int) []*c11Input {
	res := []*c11Input{}
	first := func() c11Dataset {
		ds := c11GenDataset(r, 0)
		for len(ds["hosts"]) == 0 {
			ds = c11GenDataset(r, 0)
		}

		return ds
	}
	n := 0
	for k := 2; k < nq; k++ {
		for _, parallel := range []bool{true, false} {
			fault := k
			n++
			ds0 := first()
			in := &c11Input{Parallel: parallel, Datasets: []c11Dataset{ds0, c11NextDataset(r, ds0, 1, n%2 == 0, false)}}
			in.Events = append(in.Events, c11Event{Kind: "tick"}, c11Event{Kind: "restart"})
			if n%3 == 0 {
				in.Events = append(in.Events, c11Event{Kind: "stale"})
			}
			in.Events = append(in.Events, c11Event{Kind: "tick", Fault: &fault, FKind: "table"}, c11Event{Kind: "tick"}, c11Event{Kind: "tick"})
			res = append(res, in)
			// the first synchronisation, then a second failing table after a change of the object counts
			other := 2 + (k+3)%(nq-2)
			ds0 = first()
			res = append(res, &c11Input{Parallel: parallel, Datasets: []c11Dataset{ds0, c11Grow(ds0, 1, "hostgroups", 1)},
				Events: []c11Event{{Kind: "tick", Fault: &fault, FKind: "table"}, {Kind: "tick"}, {Kind: "change"},
					{Kind: "tick", Minute: true, Fault: &other, FKind: "table"}, {Kind: "tick", Minute: true}, {Kind: "tick"}}})
		}
	}
	for k := 0; k <= nq; k++ {
		fault := k
		ds0 := first()
		in := &c11Input{Parallel: true, Datasets: []c11Dataset{ds0, c11NextDataset(r, ds0, 1, k%2 == 0, false)}}
		in.Events = append(in.Events, c11Event{Kind: "tick"}, c11Event{Kind: "restart"})
		if k%3 == 1 {
			in.Events = append(in.Events, c11Event{Kind: "stale"})
		}
		in.Events = append(in.Events, c11Event{Kind: "tick", Fault: &fault, FMode: []string{"garbage", "truncate"}[k%2]}, c11Event{Kind: "tick"}, c11Event{Kind: "tick"})
		res = append(res, in)
	}

	return res
}

// c11Grow derives an object set with more (delta > 0) or fewer (delta < 0) hosts / services / hostgroups;
// comments and downtimes stay (a change without restart).
func c11Grow(prev c11Dataset, ver int, table string, delta int) c11Dataset {
	ds := c11CopyDataset(prev)
	for i, h := range ds["hosts"] {
		ds["hosts"][i] = [2]string{h[0], fmt.Sprintf("v%d %s", ver, h[0])}
	}
	for n := 0; n < delta; n++ {
		switch table {
		case "hosts":
			name := fmt.Sprintf("new%d-%d", ver, n)
			ds["hosts"] = append(ds["hosts"], [2]string{name, fmt.Sprintf("v%d %s", ver, name)})
		case "services":
			ds["services"] = append(ds["services"], [2]string{ds["hosts"][0][0], fmt.Sprintf("svc%d-%d", ver, n)})
		default:
			ds[table] = append(ds[table], [2]string{fmt.Sprintf("%s%d-%d", table[:2], ver, n), ""})
		}
	}
	for n := 0; n > delta && len(ds[table]) > 1; n-- {
		last := ds[table][len(ds[table])-1]
		ds[table] = ds[table][:len(ds[table])-1]
		if table == "hosts" {
			kept := [][2]string{}
			for _, sv := range ds["services"] {
				if sv[0] != last[0] {
					kept = append(kept, sv)
				}
			}
			ds["services"] = kept
		}
	}

	return ds
}

// c11EnumerateChanges: object count changes without restart and the broken state:
// more hosts/services than cached found by the full scan (broken), waiting, grace time over or a restart
// (rebuild, also failing at some query), fewer objects (only a full refresh notices), more host groups
// (the per-minute refresh notices), objects appearing in an empty hosts / services table (reloaded by the scan).
func c11EnumerateChanges(r *vRand, nq int) []*c11Input {
	res := []*c11Input{}
	base := func() c11Dataset {
		ds := c11GenDataset(r, 0)
		for len(ds["hosts"]) < 2 || len(ds["services"]) < 1 {
			ds = c11GenDataset(r, 0)
		}

		return ds
	}
	tick := c11Event{Kind: "tick"}
	scan := c11Event{Kind: "tick", Scan: true}
	full := c11Event{Kind: "tick", Full: true}
	minute := c11Event{Kind: "tick", Minute: true}
	faulty := func(ev c11Event, k int, mode string) c11Event {
		ev.Fault = &k
		ev.FMode = mode

		return ev
	}
	for _, table := range []string{"hosts", "services"} {
		first := base()
		more := c11Grow(first, 1, table, 1+r.intn(2))
		// broken, waiting, grace time over
		res = append(res, &c11Input{Datasets: []c11Dataset{first, more},
			Events: []c11Event{tick, {Kind: "change"}, tick, scan, tick, scan, full, tick}})
		// broken, then the backend restarts
		res = append(res, &c11Input{Datasets: []c11Dataset{first, more, c11NextDataset(r, more, 2, true, false)},
			Events: []c11Event{tick, {Kind: "change"}, scan, tick, {Kind: "restart"}, tick, tick}})
		// broken, rebuild attempts failing at several queries, outage, stale
		for _, k := range []int{0, 1, 2, nq / 2, nq - 1} {
			mode := vPick(r, c11FModes)
			res = append(res, &c11Input{Datasets: []c11Dataset{first, more},
				Events: []c11Event{tick, {Kind: "change"}, scan, faulty(full, k, mode), tick, full, tick}})
			res = append(res, &c11Input{Datasets: []c11Dataset{first, more, c11NextDataset(r, more, 2, r.chance(1, 2), false)},
				Events: []c11Event{tick, {Kind: "change"}, scan, {Kind: "restart"}, faulty(tick, k, mode), {Kind: "stale"}, faulty(minute, k, mode), tick, tick}})
		}
		res = append(res, &c11Input{Datasets: []c11Dataset{first, more},
			Events: []c11Event{tick, {Kind: "change"}, scan, {Kind: "setok", Mode: "refuse"}, tick, {Kind: "stale"}, tick, {Kind: "setok", Ok: true}, tick, tick}})
		// fewer objects: the scan does not notice, a full update does
		fewer := c11Grow(first, 1, "hosts", -1)
		res = append(res, &c11Input{Datasets: []c11Dataset{first, fewer},
			Events: []c11Event{tick, {Kind: "change"}, scan, minute, tick, full, tick}})
		res = append(res, &c11Input{Datasets: []c11Dataset{first, fewer},
			Events: []c11Event{tick, {Kind: "change"}, scan, faulty(full, 1+r.intn(nq-1), "garbage"), tick, full, tick}})
	}
	// nothing cached in hosts (and services) or in services only, then objects appear without restart: the full scan
	// reloads at once (getMissingTimestamps: len(data) == 0) instead of declaring the peer broken
	for _, parallel := range []bool{false, true} {
		empty := base()
		empty["hosts"], empty["services"], empty["comments"], empty["downtimes"] = [][2]string{}, [][2]string{}, [][2]string{}, [][2]string{}
		withHosts := c11Grow(empty, 1, "hosts", 1+r.intn(3))
		withBoth := c11Grow(withHosts, 1, "services", 1+r.intn(3))
		noSvc := base()
		noSvc["services"] = [][2]string{}
		moreSvc := c11Grow(noSvc, 1, "services", 2)
		for _, pair := range [][2]c11Dataset{{empty, withHosts}, {empty, withBoth}, {noSvc, moreSvc}} {
			res = append(res, &c11Input{Parallel: parallel, Datasets: []c11Dataset{pair[0], pair[1]},
				Events: []c11Event{tick, {Kind: "change"}, scan, tick}})
			res = append(res, &c11Input{Parallel: parallel, Datasets: []c11Dataset{pair[0], pair[1]},
				Events: []c11Event{tick, {Kind: "change"}, tick, {Kind: "setok", Mode: "garbage"}, tick, {Kind: "setok", Ok: true}, scan, minute}})
		}
		res = append(res, &c11Input{Parallel: parallel, Datasets: []c11Dataset{empty, withBoth, c11Grow(withBoth, 2, "hosts", 1)},
			Events: []c11Event{tick, {Kind: "change"}, scan, {Kind: "change"}, scan, tick, full, tick}})
	}
	for _, table := range []string{"hostgroups", "servicegroups", "timeperiods", "contacts"} {
		first := base()
		more := c11Grow(first, 1, table, 1)
		res = append(res, &c11Input{Datasets: []c11Dataset{first, more},
			Events: []c11Event{tick, {Kind: "change"}, tick, scan, minute, tick, full, tick}})
		res = append(res, &c11Input{Datasets: []c11Dataset{first, more},
			Events: []c11Event{tick, {Kind: "change"}, faulty(minute, r.intn(nq), vPick(r, c11FModes)), faulty(full, r.intn(nq), vPick(r, c11FModes)), minute, full, tick}})
	}

	return res
}

func c11Main(args []string) int {
	flags := verifParseStreamFlags("c11restart", args)
	meta := newVMeta("restart", "enumerated: [initial sync; restart with a changed object set (same / other counts); optionally stale; tick whose rebuild fails at "+
		"query k; 2 recovery ticks] for every k in 0..nq, every failure mode (garbage, refuse, truncate); object count changes without restart (more hosts / "+
		"services found by the full scan: broken state, waiting, grace time over, restart, rebuild failing at several k, outage + stale; fewer objects; more groups / "+
		"timeperiods / contacts seen by the per-minute refresh or the full update); exactly one table fetch of a rebuild failing (404) while all others succeed, "+
		"for every table, with the serial and the parallel rebuild (MaxParallelPeerConnections 3), after a restart and during the first synchronisation, and the "+
		"parallel rebuild failing from query k on for every k. generated: histories of 7..18 events, 40% with the parallel rebuild, faults half single-table "+
		"(restart, change without restart, stop/resume answering, stale timeout, ticks with per-minute refresh / full update or broken grace over / full scan due / "+
		"rebuild fault at k in 0..nq+1) ending with recovery ticks; object sets drawn from name pools (0..7 hosts, services, groups, contacts, timeperiods, "+
		"commands, comments, downtimes; aliases tagged with the version). non-trivial: a restart or change, a failed cycle and a later successful rebuild observed; distinct by input")
	ns, nq := c11Measure()
	minute, full := c11RefreshTables()
	inputs := []*c11Input{}
	if flags.replay != "" {
		vReadReplay(flags.replay, &inputs)
	} else {
		rnd := newVRand(flags.seed*0x2545F4914F6CDD1D + 0x11)
		inputs = append(inputs, c11Enumerate(rnd.fork(), nq)...)
		inputs = append(inputs, c11EnumerateChanges(rnd.fork(), nq)...)
		inputs = append(inputs, c11EnumerateTables(rnd.fork(), nq)...)
		for range flags.n {
			inputs = append(inputs, c11Gen(rnd.fork(), nq))
		}
	}
	results := make([][]c11Obs, len(inputs))
	notes := make([][]string, len(inputs))
	var wg sync.WaitGroup
	jobs := make(chan int)
	for range 8 {
		wg.Add(1)
		go func() {
			defer wg.Done()
			for i := range jobs {
				results[i], notes[i] = c11RunCase(i, inputs[i])
			}
		}()
	}
	for i := range inputs {
		jobs <- i
	}
	close(jobs)
	wg.Wait()

	var sb strings.Builder
	sb.WriteString("From LMD Require Import C11.Run.\nOpen Scope N_scope.\n")
	names := []string{}
	meta.count(fmt.Sprintf("rebuild queries=%d, until status accepted=%d", nq, ns))
	meta.count(fmt.Sprintf("tables compared by a full update=%v, per minute=%v", full, minute))
	for i, in := range inputs {
		sb.WriteString(c11Coq(i, in, results[i], ns, nq, minute, full))
		names = append(names, fmt.Sprintf("c%d", i))
		changed, failedCycle, rebuilt := false, false, false
		prevStatus := "Pending"
		for j, ev := range in.Events {
			meta.count("event=" + ev.Kind)
			o := results[i][j]
			if ev.Kind == "restart" || ev.Kind == "change" {
				changed = true
			}
			if ev.Kind == "tick" {
				if ev.Fault != nil {
					meta.count(fmt.Sprintf("fault k=%d", *ev.Fault))
					kind := "all queries from k on fail"
					if ev.FKind == "table" {
						kind = "only table k fails"
						if *ev.Fault >= 0 && *ev.Fault < len(c11RebuildQueries) {
							meta.count("single failing table=" + c11RebuildQueries[*ev.Fault])
						}
					}
					if in.Parallel {
						meta.count("fault (parallel rebuild): " + kind)
					} else {
						meta.count("fault (serial rebuild): " + kind)
					}
				}
				if o.status != "Up" && changed {
					failedCycle = true
				}
				if o.status == "Up" && failedCycle && prevStatus != "Up" {
					rebuilt = true
				}
				meta.count("after tick status=" + o.status)
				if len(o.during) > 1 {
					meta.count("reader saw old and new during one tick")
				}
				if len(o.during) > 0 {
					meta.count("ticks with reader answers")
				}
			}
			prevStatus = o.status
		}
		for _, n := range notes[i] {
			meta.count("note=" + n)
		}
		if in.Parallel {
			meta.count("histories with the parallel rebuild")
		}
		key, _ := json.Marshal(in)
		meta.add(string(key), changed && failedCycle && rebuilt, in)
	}
	sb.WriteString("Definition cases : list case := " + coqList(names) + ".\n")
	sb.WriteString("Definition M := Eval vm_compute in mismatches cases.\nPrint M.\n")
	if err := os.WriteFile(flags.out, []byte(sb.String()), 0o644); err != nil {
		panic(err)
	}
	meta.write(flags.meta)

	return 0
}
