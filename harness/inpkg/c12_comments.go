//go:build verif

package lmd

// C12 stream `c12comments`: one real Peer (vNewPeer + InitAllTables) against a
// scripted backend (vbackend.go) whose comments and downtimes tables follow a
// generated history of additions (fresh, strictly increasing ids up to 2^40),
// removals (any entry, the newest, all of them) and reply order changes,
// interleaved with real update runs: ds.updateDeltaCommentsOrDowntimes for one
// table, a whole ds.UpdateDelta, or InitAllTables. After every step of lmd the
// tables are read back through lmd's query path (NewRequest/NewResponse):
// GET comments, GET downtimes with all stored columns and GET hosts / services
// with comments, downtimes, comments_with_info, downtimes_with_info. The Coq
// model (C12/Run.v) computes the same observations; order inside set-like
// output is canonicalised there (sorting, duplicates are kept).

import (
	"context"
	"encoding/json"
	"fmt"
	"os"
	"sort"
	"strconv"
	"strings"
	"sync"
)

type c12Entry struct {
	ID      int64   `json:"id"`
	Host    string  `json:"host"`
	Svc     string  `json:"svc"`
	Author  string  `json:"author"`
	Comment string  `json:"comment"`
	Nums    []int64 `json:"nums"`
}

type c12Op struct {
	Op    string    `json:"op"`          // add remove reorder run delta reload
	Table string    `json:"t,omitempty"` // c = comments, d = downtimes
	Entry *c12Entry `json:"entry,omitempty"`
	ID    int64     `json:"id,omitempty"`
	Order []int64   `json:"order,omitempty"`
}

type c12Input struct {
	Hosts    int     `json:"hosts"`
	Services int     `json:"services"`
	Ops      []c12Op `json:"ops"`
}

type c12Info struct {
	id      int64
	author  string
	comment string
	nums    []int64
}

type c12ObjObs struct {
	host, svc            string
	comments, downtimes  []int64
	commentsI, downtimeI []c12Info
}

type c12Obs struct {
	comments, downtimes []c12Entry
	hosts, services     []c12ObjObs
}

var (
	c12CommentNums  = []string{"entry_time", "entry_type", "expires", "expire_time", "is_service", "persistent", "source", "type"}
	c12DowntimeNums = []string{"entry_time", "start_time", "end_time", "fixed", "duration", "triggered_by", "is_service", "type"}
)

const c12NumCols = 8

func init() {
	verifRegister("c12comments", "C12: comments/downtimes add/remove histories against a real peer and a scripted backend", c12Main)
}

func c12TableName(t string) string {
	if t == "d" {
		return "downtimes"
	}

	return "comments"
}

func c12NumNames(t string) []string {
	if t == "d" {
		return c12DowntimeNums
	}

	return c12CommentNums
}

func c12Nums(e *c12Entry) []int64 {
	nums := make([]int64, c12NumCols)
	copy(nums, e.Nums)

	return nums
}

// c12RowID reads the id of a backend row.
func c12RowID(tab *vTable, row []interface{}) int64 {
	return int64(vToFloat(row[tab.colIndex("id")]))
}

type c12Runner struct {
	ctx     context.Context
	lmd     *Daemon
	peer    *Peer
	backend *vBackend
	next    map[string]int64
	seen    map[string][]int64 // ids ever handed out per table (lookups by id after every step)
	notes   []string
}

func (r *c12Runner) note(format string, args ...interface{}) {
	r.notes = append(r.notes, fmt.Sprintf(format, args...))
}

func (r *c12Runner) query(text string) [][]interface{} {
	out, err := vQuery(r.lmd, text)
	if err != nil {
		r.note("query error: %s", err.Error())

		return nil
	}
	var rows [][]interface{}
	if err = json.Unmarshal(out, &rows); err != nil {
		r.note("query result is not json: %.80s", string(out))

		return nil
	}

	return rows
}

func c12Int64List(val interface{}) []int64 {
	list, _ := val.([]interface{})
	res := make([]int64, 0, len(list))
	for _, v := range list {
		res = append(res, int64(vToFloat(v)))
	}

	return res
}

func c12InfoList(val interface{}) []c12Info {
	list, _ := val.([]interface{})
	res := make([]c12Info, 0, len(list))
	for _, v := range list {
		row, _ := v.([]interface{})
		if len(row) < 3 {
			res = append(res, c12Info{id: -1})

			continue
		}
		info := c12Info{id: int64(vToFloat(row[0])), author: fmt.Sprintf("%v", row[1]), comment: fmt.Sprintf("%v", row[2])}
		for _, n := range row[3:] {
			info.nums = append(info.nums, int64(vToFloat(n)))
		}
		res = append(res, info)
	}

	return res
}

// observeTable reads the table twice: the complete table, and every id ever handed out on its own with
// `Filter: id = n` (answered through the primary key index). Where the two disagree about an id the observation
// gets an entry no model state has, so the case is reported.
func (r *c12Runner) observeTable(t string) []c12Entry {
	res := r.readTable(t, "")
	for _, id := range r.seen[t] {
		dump := []c12Entry{}
		for i := range res {
			if res[i].ID == id {
				dump = append(dump, res[i])
			}
		}
		byID := r.readTable(t, fmt.Sprintf("Filter: id = %d\n", id))
		same := len(dump) == len(byID)
		for i := 0; same && i < len(dump); i++ {
			same = fmt.Sprintf("%v", dump[i]) == fmt.Sprintf("%v", byID[i])
		}
		if !same {
			r.note("%s: id %d: table scan has %d row(s), lookup by id %d", c12TableName(t), id, len(dump), len(byID))
			res = append(res, c12Entry{ID: id, Host: "LOOKUP-BY-ID-DIFFERS", Author: fmt.Sprintf("scan %d lookup %d", len(dump), len(byID))})
		}
	}

	return res
}

func (r *c12Runner) readTable(t, filter string) []c12Entry {
	rows := r.query("GET " + c12TableName(t) + "\nColumns: id host_name service_description author comment " +
		strings.Join(c12NumNames(t), " ") + "\n" + filter + "OutputFormat: json\n\n")
	res := make([]c12Entry, 0, len(rows))
	for _, row := range rows {
		if len(row) != 5+c12NumCols {
			r.note("short row in %s", c12TableName(t))

			continue
		}
		ent := c12Entry{ID: int64(vToFloat(row[0])), Host: fmt.Sprintf("%v", row[1]), Svc: fmt.Sprintf("%v", row[2]),
			Author: fmt.Sprintf("%v", row[3]), Comment: fmt.Sprintf("%v", row[4])}
		for _, n := range row[5:] {
			ent.Nums = append(ent.Nums, int64(vToFloat(n)))
		}
		res = append(res, ent)
	}

	return res
}

func (r *c12Runner) observe() c12Obs {
	obs := c12Obs{comments: r.observeTable("c"), downtimes: r.observeTable("d")}
	for _, row := range r.query("GET hosts\nColumns: name comments downtimes comments_with_info downtimes_with_info\nOutputFormat: json\n\n") {
		if len(row) != 5 {
			continue
		}
		obs.hosts = append(obs.hosts, c12ObjObs{host: fmt.Sprintf("%v", row[0]), comments: c12Int64List(row[1]), downtimes: c12Int64List(row[2]),
			commentsI: c12InfoList(row[3]), downtimeI: c12InfoList(row[4])})
	}
	for _, row := range r.query("GET services\nColumns: host_name description comments downtimes comments_with_info downtimes_with_info\nOutputFormat: json\n\n") {
		if len(row) != 6 {
			continue
		}
		obs.services = append(obs.services, c12ObjObs{host: fmt.Sprintf("%v", row[0]), svc: fmt.Sprintf("%v", row[1]),
			comments: c12Int64List(row[2]), downtimes: c12Int64List(row[3]), commentsI: c12InfoList(row[4]), downtimeI: c12InfoList(row[5])})
	}
	sort.SliceStable(obs.hosts, func(i, j int) bool { return obs.hosts[i].host < obs.hosts[j].host })
	sort.SliceStable(obs.services, func(i, j int) bool {
		if obs.services[i].host != obs.services[j].host {
			return obs.services[i].host < obs.services[j].host
		}

		return obs.services[i].svc < obs.services[j].svc
	})

	return obs
}

// apply runs one operation; it returns true if lmd made a step (and must be observed).
func (r *c12Runner) apply(op *c12Op) bool {
	table := c12TableName(op.Table)
	switch op.Op {
	case "add":
		ent := op.Entry
		if ent == nil || ent.ID < r.next[op.Table] {
			// not a fresh id: the core never hands out such an id (the model ignores it as well)
			return false
		}
		r.next[op.Table] = ent.ID + 1
		if r.seen == nil {
			r.seen = map[string][]int64{}
		}
		r.seen[op.Table] = append(r.seen[op.Table], ent.ID)
		vals := map[string]interface{}{"id": float64(ent.ID), "host_name": ent.Host, "service_description": ent.Svc,
			"author": ent.Author, "comment": ent.Comment}
		nums := c12Nums(ent)
		for i, name := range c12NumNames(op.Table) {
			vals[name] = float64(nums[i])
		}
		r.backend.AddRow(table, vals)
	case "remove":
		r.backend.RemoveRow(table, []string{strconv.FormatInt(op.ID, 10)})
	case "reorder":
		r.backend.WithLock(func() {
			tab := r.backend.Table(table)
			for _, id := range op.Order {
				front, rest := [][]interface{}{}, [][]interface{}{}
				for _, row := range tab.Rows {
					if c12RowID(tab, row) == id {
						front = append(front, row)
					} else {
						rest = append(rest, row)
					}
				}
				tab.Rows = append(front, rest...)
			}
		})
	case "run":
		name := TableComments
		if op.Table == "d" {
			name = TableDowntimes
		}
		data := r.peer.data.Load()
		if data == nil {
			r.note("run without data")

			return true
		}
		if err := data.updateDeltaCommentsOrDowntimes(r.ctx, name); err != nil {
			r.note("run error: %s", err.Error())
		}

		return true
	case "delta":
		data := r.peer.data.Load()
		if data == nil {
			r.note("delta without data")

			return true
		}
		if err := data.UpdateDelta(r.ctx, r.peer.lastUpdate.Get(), currentUnixTime()); err != nil {
			r.note("delta error: %s", err.Error())
		}

		return true
	case "reload":
		if err := r.peer.InitAllTables(r.ctx); err != nil {
			r.note("reload error: %s", err.Error())
		}

		return true
	default:
		panic("c12: unknown op " + op.Op)
	}

	return false
}

func c12RunCase(idx int, in *c12Input) (objsHosts []string, objsSvcs [][2]string, obs []c12Obs, notes []string) {
	backend := newVBackend(fmt.Sprintf("c12-%d", idx))
	defer backend.Close()
	dataset := vDefaultDataset(newVRand(uint64(1000+idx)), in.Hosts, in.Services)
	dataset["comments"].Rows = nil
	dataset["downtimes"].Rows = nil
	for _, row := range dataset["hosts"].Rows {
		objsHosts = append(objsHosts, fmt.Sprintf("%v", row[0]))
	}
	for _, row := range dataset["services"].Rows {
		objsSvcs = append(objsSvcs, [2]string{fmt.Sprintf("%v", row[0]), fmt.Sprintf("%v", row[1])})
	}
	sort.Strings(objsHosts)
	sort.SliceStable(objsSvcs, func(i, j int) bool {
		if objsSvcs[i][0] != objsSvcs[j][0] {
			return objsSvcs[i][0] < objsSvcs[j][0]
		}

		return objsSvcs[i][1] < objsSvcs[j][1]
	})
	backend.SetDataset(dataset)
	lmd := verifNewDaemon()
	lmd.Config.MaxParallelPeerConnections = 1
	run := &c12Runner{ctx: context.Background(), lmd: lmd, backend: backend, next: map[string]int64{"c": 1, "d": 1}}
	run.peer = vNewPeer(lmd, "p", []string{backend.Addr()}, nil)
	if err := run.peer.InitAllTables(run.ctx); err != nil {
		run.note("initial sync failed: %s", err.Error())
	}
	defer func() {
		// a panic inside lmd: the remaining lmd steps get an observation no model state matches (no hosts at all)
		if rec := recover(); rec != nil {
			run.note("panic: %v", rec)
			steps := 0
			for _, op := range in.Ops {
				if op.Op == "run" || op.Op == "delta" || op.Op == "reload" {
					steps++
				}
			}
			for len(obs) < steps {
				obs = append(obs, c12Obs{})
			}
			notes = run.notes
		}
	}()
	for i := range in.Ops {
		if run.apply(&in.Ops[i]) {
			obs = append(obs, run.observe())
		}
	}

	return objsHosts, objsSvcs, obs, run.notes
}

// ---- Coq emission ---------------------------------------------------------------------

func c12CoqNList(l []int64) string {
	parts := make([]string, 0, len(l))
	for _, v := range l {
		if v < 0 {
			v = 0 // cannot happen for the generated data; keeps the term well typed
		}
		parts = append(parts, strconv.FormatInt(v, 10))
	}

	return "[" + strings.Join(parts, ";") + "]"
}

func c12CoqN(v int64) string {
	if v < 0 {
		v = 0
	}

	return strconv.FormatInt(v, 10)
}

func c12CoqEntry(ent *c12Entry) string {
	return fmt.Sprintf("mkE %s %s %s %s %s %s", c12CoqN(ent.ID), coqStr(ent.Host), coqStr(ent.Svc), coqStr(ent.Author), coqStr(ent.Comment), c12CoqNList(c12Nums(ent)))
}

// c12Intern shares textually identical sub terms of one case (rows repeat in every observation): a term is bound
// once to a name and referenced afterwards. Pure let-binding of emitted text, nothing is compared here.
type c12Intern struct {
	prefix string
	typ    string
	names  map[string]string
	defs   strings.Builder
}

func (n *c12Intern) ref(term string) string {
	if name, ok := n.names[term]; ok {
		return name
	}
	name := fmt.Sprintf("%s%d", n.prefix, len(n.names))
	n.names[term] = name
	fmt.Fprintf(&n.defs, "Definition %s : %s := %s.\n", name, n.typ, term)

	return name
}

func c12CoqInfos(in *c12Intern, l []c12Info) string {
	parts := make([]string, 0, len(l))
	for _, info := range l {
		parts = append(parts, in.ref(fmt.Sprintf("I %s %s %s %s", c12CoqN(info.id), coqStr(info.author), coqStr(info.comment), c12CoqNList(info.nums))))
	}

	return coqList(parts)
}

func c12CoqKind(t string) string {
	if t == "d" {
		return "KD"
	}

	return "KC"
}

func c12Coq(idx int, in *c12Input, hosts []string, svcs [][2]string, obs []c12Obs) string {
	entries := &c12Intern{prefix: fmt.Sprintf("c%d_e", idx), typ: "entry", names: map[string]string{}}
	infos := &c12Intern{prefix: fmt.Sprintf("c%d_i", idx), typ: "info", names: map[string]string{}}
	ops := []string{}
	for i := range in.Ops {
		op := &in.Ops[i]
		switch op.Op {
		case "add":
			if op.Entry == nil {
				continue
			}
			ops = append(ops, fmt.Sprintf("CAdd %s (%s)", c12CoqKind(op.Table), c12CoqEntry(op.Entry)))
		case "remove":
			ops = append(ops, fmt.Sprintf("CRemove %s %s", c12CoqKind(op.Table), c12CoqN(op.ID)))
		case "reorder":
			ops = append(ops, fmt.Sprintf("CReorder %s %s", c12CoqKind(op.Table), c12CoqNList(op.Order)))
		case "run":
			ops = append(ops, "CRun "+c12CoqKind(op.Table))
		case "delta":
			ops = append(ops, "CDelta")
		case "reload":
			ops = append(ops, "CReload")
		}
	}
	svcParts := []string{}
	for _, k := range svcs {
		svcParts = append(svcParts, fmt.Sprintf("(%s, %s)", coqStr(k[0]), coqStr(k[1])))
	}
	obsParts := []string{}
	for _, o := range obs {
		com, down, hs, ss := []string{}, []string{}, []string{}, []string{}
		for i := range o.comments {
			com = append(com, entries.ref(c12CoqEntry(&o.comments[i])))
		}
		for i := range o.downtimes {
			down = append(down, entries.ref(c12CoqEntry(&o.downtimes[i])))
		}
		for _, h := range o.hosts {
			hs = append(hs, fmt.Sprintf("H %s %s %s %s %s", coqStr(h.host), c12CoqNList(h.comments), c12CoqNList(h.downtimes), c12CoqInfos(infos, h.commentsI), c12CoqInfos(infos, h.downtimeI)))
		}
		for _, s := range o.services {
			ss = append(ss, fmt.Sprintf("Sv %s %s %s %s %s %s", coqStr(s.host), coqStr(s.svc), c12CoqNList(s.comments), c12CoqNList(s.downtimes), c12CoqInfos(infos, s.commentsI), c12CoqInfos(infos, s.downtimeI)))
		}
		obsParts = append(obsParts, fmt.Sprintf("mkObs %s %s %s %s", coqList(com), coqList(down), coqList(hs), coqList(ss)))
	}

	return entries.defs.String() + infos.defs.String() +
		fmt.Sprintf("Definition c%d : case := mkCase (mkObjs %s %s)\n %s\n %s.\n", idx, coqStrList(hosts), coqList(svcParts), coqList(ops), coqList(obsParts))
}

// ---- generator ------------------------------------------------------------------------

var (
	c12Authors  = []string{"admin", "oper", "Jörg Müller", "(Nagios Process)", "a;b", ""}
	c12Comments = []string{"host comment", "service comment", "flapping started", "ACK: wird geprüft", "quote \" and \\ backslash", "日本語のコメント", "x", "", "line; with; semicolons"}
)

type c12GenTable struct {
	next int64
	ids  []int64
}

func c12Gen(r *vRand) *c12Input {
	in := &c12Input{Hosts: 1 + r.intn(3), Services: r.intn(5)}
	hosts := []string{}
	svcs := [][2]string{}
	for _, row := range vDefaultDataset(newVRand(1), in.Hosts, in.Services)["services"].Rows {
		svcs = append(svcs, [2]string{fmt.Sprintf("%v", row[0]), fmt.Sprintf("%v", row[1])})
	}
	for i := 1; i <= in.Hosts; i++ {
		hosts = append(hosts, fmt.Sprintf("vhost%d", i))
	}
	tabs := map[string]*c12GenTable{}
	for _, t := range []string{"c", "d"} {
		tabs[t] = &c12GenTable{next: vPick(r, []int64{1, 1, 1, 100, 1 << 31, 1<<32 - 2, 1<<40 - 20})}
	}
	const base = 1700000000
	add := func(t string) {
		tab := tabs[t]
		step := vPick(r, []int64{0, 0, 0, 0, 1, 2, 5, 1000, 1 << 33})
		id := tab.next + step
		if id > 1<<40 {
			id = tab.next
		}
		ent := &c12Entry{ID: id, Author: vPick(r, c12Authors), Comment: vPick(r, c12Comments)}
		isSvc := len(svcs) > 0 && r.chance(1, 2)
		if isSvc {
			k := vPick(r, svcs)
			ent.Host, ent.Svc = k[0], k[1]
		} else {
			ent.Host = vPick(r, hosts)
		}
		svcFlag := int64(0)
		if isSvc {
			svcFlag = 1
		}
		entry := int64(base + r.intn(100000))
		if t == "c" {
			expires := int64(r.intn(2))
			ent.Nums = []int64{entry, int64(1 + r.intn(4)), expires, expires * (entry + int64(r.intn(1<<20))), svcFlag, int64(r.intn(2)), int64(r.intn(2)), 1 + svcFlag}
		} else {
			trig := int64(0)
			if len(tab.ids) > 0 && r.chance(1, 4) {
				trig = vPick(r, tab.ids)
			}
			start := entry + int64(r.intn(3600))
			dur := int64(60 + r.intn(1<<20))
			ent.Nums = []int64{entry, start, start + dur, int64(r.intn(2)), dur, trig, svcFlag, int64(r.intn(2))}
		}
		tab.next = id + 1
		tab.ids = append(tab.ids, id)
		in.Ops = append(in.Ops, c12Op{Op: "add", Table: t, Entry: ent})
	}
	remove := func(t string, pos int) {
		tab := tabs[t]
		in.Ops = append(in.Ops, c12Op{Op: "remove", Table: t, ID: tab.ids[pos]})
		tab.ids = append(tab.ids[:pos:pos], tab.ids[pos+1:]...)
	}
	// a few entries, then the initial synchronisation
	for range r.intn(5) {
		add(vPick(r, []string{"c", "d"}))
	}
	if r.chance(3, 4) {
		in.Ops = append(in.Ops, c12Op{Op: "reload"})
	}
	limit := 8 + r.intn(23)
	for len(in.Ops) < limit {
		t := vPick(r, []string{"c", "c", "d"})
		tab := tabs[t]
		switch k := r.intn(100); {
		case k < 36:
			add(t)
		case k < 56:
			if len(tab.ids) == 0 {
				continue
			}
			switch r.intn(6) {
			case 0, 1: // the newest
				remove(t, len(tab.ids)-1)
			case 2: // empty the table
				for len(tab.ids) > 0 && len(in.Ops) < limit+4 {
					remove(t, r.intn(len(tab.ids)))
				}
			default:
				remove(t, r.intn(len(tab.ids)))
			}
		case k < 68:
			order := append([]int64{}, tab.ids...)
			for i := len(order) - 1; i > 0; i-- {
				j := r.intn(i + 1)
				order[i], order[j] = order[j], order[i]
			}
			if len(order) > 0 {
				in.Ops = append(in.Ops, c12Op{Op: "reorder", Table: t, Order: order[:1+r.intn(len(order))]})
			}
		case k < 90:
			in.Ops = append(in.Ops, c12Op{Op: "run", Table: t})
		case k < 97:
			in.Ops = append(in.Ops, c12Op{Op: "delta"})
		default:
			in.Ops = append(in.Ops, c12Op{Op: "reload"})
		}
	}
	if r.chance(1, 40) {
		// a mass downtime / acknowledgement: more new entries in one run than any per-request limit of the fetch
		t := vPick(r, []string{"c", "d"})
		for range 151 + r.intn(6) {
			add(t)
		}
		in.Ops = append(in.Ops, c12Op{Op: "run", Table: t})
	}
	in.Ops = append(in.Ops, c12Op{Op: "delta"})

	return in
}

func c12Main(args []string) int {
	flags := verifParseStreamFlags("c12comments", args)
	meta := newVMeta("comments", "generated histories (<= 35 operations) on the comments and downtimes tables of a scripted backend with 1..3 hosts and 0..4 services: "+
		"add (fresh ids, strictly increasing, steps up to 2^33, ids up to 2^40; host and service entries; authors/texts with non-ASCII, quotes, semicolons, empty), "+
		"remove (random, the newest, all), reorder (reply order = any permutation), interleaved with lmd steps: updateDeltaCommentsOrDowntimes(table), UpdateDelta, InitAllTables; "+
		"observed after every lmd step. non-trivial: at least one run that had to add and one that had to remove entries; distinct by input")
	inputs := []*c12Input{}
	if flags.replay != "" {
		vReadReplay(flags.replay, &inputs)
	} else {
		rnd := newVRand(flags.seed*0x9E3779B97F4A7C15 + 0x12)
		for range flags.n {
			inputs = append(inputs, c12Gen(rnd.fork()))
		}
	}
	type result struct {
		hosts []string
		svcs  [][2]string
		obs   []c12Obs
		notes []string
	}
	results := make([]result, len(inputs))
	var wg sync.WaitGroup
	jobs := make(chan int)
	for range 8 {
		wg.Add(1)
		go func() {
			defer wg.Done()
			for i := range jobs {
				res := &results[i]
				res.hosts, res.svcs, res.obs, res.notes = c12RunCase(i, inputs[i])
			}
		}()
	}
	for i := range inputs {
		jobs <- i
	}
	close(jobs)
	wg.Wait()

	var sb strings.Builder
	sb.WriteString("From LMD Require Import C12.Run.\nOpen Scope N_scope.\n")
	names := []string{}
	for i, in := range inputs {
		res := &results[i]
		sb.WriteString(c12Coq(i, in, res.hosts, res.svcs, res.obs))
		names = append(names, fmt.Sprintf("c%d", i))
		// statistics: what did the runs have to do
		pending := map[string][2]int{}
		sawAdd, sawRemove := false, false
		for _, op := range in.Ops {
			meta.count("op=" + op.Op)
			cur := pending[op.Table]
			switch op.Op {
			case "add":
				cur[0]++
				pending[op.Table] = cur
				if op.Entry != nil && op.Entry.ID >= 1<<32 {
					meta.count("id>=2^32")
				}
				if op.Entry != nil && op.Entry.Svc != "" {
					meta.count("entry=service")
				} else {
					meta.count("entry=host")
				}
			case "remove":
				cur[1]++
				pending[op.Table] = cur
			case "run", "delta", "reload":
				for _, t := range []string{"c", "d"} {
					if op.Op == "run" && t != op.Table {
						continue
					}
					if pending[t][0] > 0 {
						sawAdd = true
					}
					if pending[t][1] > 0 {
						sawRemove = true
					}
					if pending[t][0] > 0 && pending[t][1] > 0 {
						meta.count("run with additions and removals pending")
					}
					pending[t] = [2]int{}
				}
			}
		}
		meta.count(fmt.Sprintf("hosts=%d", in.Hosts))
		meta.count(fmt.Sprintf("services=%d", in.Services))
		for _, o := range res.obs {
			if len(o.comments) == 0 && len(o.downtimes) == 0 {
				meta.count("observation with both tables empty")
			}
		}
		for _, n := range res.notes {
			meta.count("note=" + n)
		}
		key, _ := json.Marshal(in)
		meta.add(string(key), sawAdd && sawRemove, in)
	}
	sb.WriteString("Definition cases : list case := " + coqList(names) + ".\n")
	sb.WriteString("Definition M := Eval vm_compute in mismatches cases.\nPrint M.\n")
	if err := os.WriteFile(flags.out, []byte(sb.String()), 0o644); err != nil {
		panic(err)
	}
	meta.write(flags.meta)

	return 0
}
