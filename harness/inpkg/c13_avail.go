//go:build verif

package lmd

// C13 stream `c13avail`: one real Peer whose 1..3 source and 0..2 fallback
// addresses are scripted backends (vbackend.go, or sockets nobody listens on)
// that are switched between ok / refuse / garbage. The peer is single stepped
// like its updateLoop would do it (InitAllTables at start, periodicUpdate +
// initTablesIfRestartRequiredError per tick); client data queries go through
// NewResponse. Time is driven by shifting the peer's timestamps: between two
// events no time passes (the real time that elapsed is added back), a `pass`
// event subtracts d+0.1 seconds, and timestamps written during an event are
// snapped to the start of the event, so that the run is independent of the
// speed of the machine. After every event `GET sites` (status, last_error,
// idling, addr) and GetDataStore/`failed` are observed, as well as isOnline, the
// hostsbygroup table and the identity of the cached objects (which core instance
// the status table is from, which object set the hosts table is).
//
// Event `restart`: the core behind the backend restarts while the backend keeps
// its mode: all addresses serve a status row with another program_start and/or
// nagios_pid, with the same objects or with another object set (one more host).
// Event `ready` (on=false): all addresses answer the status query with zero rows
// from now on (an lmd partner whose own backends are not ready; every other table
// is answered as before); on=true: the status row is back.

import (
	"context"
	"encoding/json"
	"fmt"
	"math"
	"os"
	"strings"
	"sync"
	"time"
)

type c13Event struct {
	Kind   string `json:"kind"` // init setmode tick pass query restart ready
	Addr   int    `json:"addr,omitempty"`
	Mode   string `json:"mode,omitempty"`
	Minute bool   `json:"minute,omitempty"`
	D      int    `json:"d,omitempty"` // seconds
	// restart: the object set changes as well / what changes in the status row (ps, pid, both)
	Changed bool   `json:"changed,omitempty"`
	How     string `json:"how,omitempty"`
	// ready: the status query is answered with its row (true) / with zero rows (false)
	On bool `json:"on,omitempty"`
}

type c13Input struct {
	Stale       int        `json:"stale"`
	IdleTimeout int        `json:"idle_timeout"`
	Update      int        `json:"update_interval"`
	IdleInt     int        `json:"idle_interval"`
	NSrc        int        `json:"nsrc"`
	NFb         int        `json:"nfb"`
	Modes       []string   `json:"modes"` // per address: ok refuse garbage dead
	Events      []c13Event `json:"events"`
}

type c13Obs struct {
	status string
	err    bool
	idling bool
	failed bool
	addr   int
	// isOnline, hostsbygroup refused, core instance of the cached status table, object set of the cached hosts (0 = no data, 99 = unknown)
	online  bool
	bygroup bool
	core    int
	dset    int
}

// c13Core is one instance of the core behind the backend.
type c13Core struct {
	programStart int64
	pid          int64
	hosts        int // number of hosts of its object set
	dset         int // identity of its object set (the first instance that served it)
}

func c13Dataset(core *c13Core, ready bool) map[string]*vTable {
	ds := vDefaultDataset(newVRand(4242), core.hosts, 3)
	st := ds["status"]
	st.Rows[0][st.colIndex("program_start")] = float64(core.programStart)
	st.Rows[0][st.colIndex("nagios_pid")] = float64(core.pid)
	if !ready {
		st.Rows = [][]interface{}{}
	}

	return ds
}

// c13HostsDset maps the host names a query returned to the object set they are: vhost1..vhostN of the instance that introduced N hosts.
func c13HostsDset(names []string, cores []c13Core) int {
	seen := map[string]bool{}
	for _, n := range names {
		seen[n] = true
	}
	for i := 1; i <= len(names); i++ {
		if !seen[fmt.Sprintf("vhost%d", i)] {
			return 99
		}
	}
	for i := range cores {
		if cores[i].hosts == len(names) && len(seen) == len(names) {
			return cores[i].dset
		}
	}

	return 99
}

func init() {
	verifRegister("c13avail", "C13: availability state machine of a real peer against scripted backends", c13Main)
}

const c13PassFraction = 0.05

func c13Mode(name string) vMode {
	switch name {
	case "ok":
		return vModeOK
	case "refuse", "dead":
		return vModeRefuse
	case "garbage":
		return vModeGarbage
	}
	panic("c13: unknown mode " + name)
}

// c13Clock keeps the peer's timestamps in virtual time.
type c13Clock struct {
	lmd   *Daemon
	peer  *Peer
	start float64 // real time at the start of the current event
}

func (c *c13Clock) fields() []*atomicFloat64 {
	p := c.peer

	return []*atomicFloat64{&p.lastOnline, &p.lastUpdate, &p.lastQuery, &p.lastFullUpdate, &p.lastFullHostUpdate, &p.lastFullServiceUpdate}
}

// shift moves all timestamps by delta seconds (zero = "never" is kept).
func (c *c13Clock) shift(delta float64) {
	for _, f := range c.fields() {
		if v := f.Get(); v != 0 {
			f.Set(v + delta)
		}
	}
	c.lmd.lastMainRestart += delta
}

// begin starts an event: the real time since the previous event started did not happen.
func (c *c13Clock) begin() (before []float64) {
	now := currentUnixTime()
	c.shift(now - c.start)
	c.start = now
	for _, f := range c.fields() {
		before = append(before, f.Get())
	}

	return before
}

// end snaps timestamps written during the event to the start of the event (plus whole seconds).
func (c *c13Clock) end(before []float64) {
	if before == nil {
		return
	}
	for i, f := range c.fields() {
		v := f.Get()
		if v == before[i] || v == 0 {
			continue
		}
		f.Set(c.start + math.Floor(v-c.start+1e-7))
	}
}

func c13StatusName(st PeerStatus) string {
	switch st {
	case PeerStatusUp:
		return "Up"
	case PeerStatusWarning:
		return "Warning"
	case PeerStatusDown:
		return "Down"
	case PeerStatusPending:
		return "Pending"
	case PeerStatusSyncing:
		return "Syncing"
	default:
		return "Broken"
	}
}

func c13RunCase(idx int, in *c13Input) (obs []c13Obs, notes []string) {
	ctx := context.Background()
	lmd := verifNewDaemon()
	lmd.Config.StaleBackendTimeout = in.Stale
	lmd.Config.IdleTimeout = int64(in.IdleTimeout)
	lmd.Config.UpdateInterval = int64(in.Update)
	lmd.Config.IdleInterval = int64(in.IdleInt)
	lmd.Config.FullUpdateInterval = 0
	lmd.Config.BackendKeepAlive = false
	lmd.Config.ConnectTimeout = 5
	lmd.Config.NetTimeout = 10

	// instance 1 of the core; cores[k-1] is instance k
	cores := []c13Core{{programStart: 1700000000 - 1000, pid: 4321, hosts: 2, dset: 1}}
	ready := true
	nAddr := in.NSrc + in.NFb
	backends := make([]*vBackend, nAddr)
	addrs := make([]string, nAddr)
	addrIndex := map[string]int{}
	for i := range nAddr {
		if in.Modes[i] == "dead" {
			addrs[i] = vDeadSocket(fmt.Sprintf("c13-%d-%d", idx, i))
		} else {
			backends[i] = newVBackend(fmt.Sprintf("c13-%d-%d", idx, i))
			backends[i].SetDataset(c13Dataset(&cores[0], ready))
			backends[i].SetMode(c13Mode(in.Modes[i]))
			addrs[i] = backends[i].Addr()
		}
		addrIndex[addrs[i]] = i
	}
	defer func() {
		for _, b := range backends {
			if b != nil {
				b.Close()
			}
		}
	}()
	peer := vNewPeer(lmd, "p", addrs[:in.NSrc], addrs[in.NSrc:])
	clock := &c13Clock{lmd: lmd, peer: peer, start: currentUnixTime()}
	lmd.lastMainRestart = clock.start

	for ei := range in.Events {
		ev := &in.Events[ei]
		before := clock.begin()
		queryFailed, isQuery := false, false
		queryHosts := []string{}
		switch ev.Kind {
		case "init":
			_ = peer.InitAllTables(ctx)
		case "setmode":
			if backends[ev.Addr] != nil {
				backends[ev.Addr].SetMode(c13Mode(ev.Mode))
			}
		case "tick":
			// keep clear of the wall clock minute boundary
			for time.Now().Second() == 59 && time.Now().Nanosecond() > 400e6 {
				time.Sleep(50 * time.Millisecond)
			}
			minute := int32(time.Now().Minute())
			if ev.Minute {
				minute = (minute + 1) % 60
			}
			peer.lastTimeperiodUpdateMinute.Store(minute)
			_, err := peer.periodicUpdate(ctx)
			_ = peer.initTablesIfRestartRequiredError(ctx, err)
		case "restart":
			next := cores[len(cores)-1]
			switch ev.How {
			case "ps":
				next.programStart += 10
			case "pid":
				next.pid++
			default:
				next.programStart += 10
				next.pid++
			}
			if ev.Changed {
				next.hosts++
				next.dset = len(cores) + 1
			}
			cores = append(cores, next)
			for _, b := range backends {
				if b != nil {
					b.SetDataset(c13Dataset(&next, ready))
				}
			}
			before = nil // nothing was written by lmd
		case "ready":
			ready = ev.On
			for _, b := range backends {
				if b != nil {
					b.SetDataset(c13Dataset(&cores[len(cores)-1], ready))
				}
			}
			before = nil // nothing was written by lmd
		case "pass":
			clock.shift(-(float64(ev.D) + c13PassFraction))
			before = nil // nothing was written by lmd
		case "query":
			isQuery = true
			out, err := vQuery(lmd, "GET hosts\nColumns: name\nOutputFormat: wrapped_json\n\n")
			if err != nil {
				notes = append(notes, "query error: "+err.Error())
				queryFailed = true
			} else {
				var res struct {
					Failed map[string]string `json:"failed"`
					Data   [][]interface{}   `json:"data"`
				}
				if jerr := json.Unmarshal(out, &res); jerr != nil {
					notes = append(notes, "query json: "+jerr.Error())
				}
				_, queryFailed = res.Failed["p"]
				for _, row := range res.Data {
					if len(row) == 1 {
						queryHosts = append(queryHosts, fmt.Sprintf("%v", row[0]))
					}
				}
			}
		default:
			panic("c13: unknown event " + ev.Kind)
		}
		clock.end(before)

		// observe without perturbing lastQuery (a GET sites counts as a query for idle mode)
		lastQuery := peer.lastQuery.Get()
		out, err := vQuery(lmd, "GET sites\nColumns: status last_error idling addr\nOutputFormat: json\n\n")
		peer.lastQuery.Set(lastQuery)
		o := c13Obs{status: "Broken", addr: -1}
		var rows [][]interface{}
		if err == nil && json.Unmarshal(out, &rows) == nil && len(rows) == 1 && len(rows[0]) == 4 {
			o.status = c13StatusName(PeerStatus(int32(vToFloat(rows[0][0]))))
			o.err = fmt.Sprintf("%v", rows[0][1]) != ""
			o.idling = vToFloat(rows[0][2]) != 0
			if i, ok := addrIndex[fmt.Sprintf("%v", rows[0][3])]; ok {
				o.addr = i
			}
		} else {
			notes = append(notes, "sites query failed")
		}
		_, derr := peer.GetDataStore(TableHosts)
		o.failed = derr != nil
		if isQuery && queryFailed != o.failed {
			notes = append(notes, "query failed flag differs from GetDataStore")
			o.failed = queryFailed
		}
		o.online = peer.isOnline()
		_, gerr := peer.GetDataStore(TableHostsbygroup)
		o.bygroup = gerr != nil
		if status, serr := peer.GetDataStore(TableStatus); serr == nil {
			o.core = 99
			if len(status.data) == 1 {
				ps, pid := status.data[0].GetInt64ByName("program_start"), status.data[0].GetInt64ByName("nagios_pid")
				for i := range cores {
					if cores[i].programStart == ps && cores[i].pid == pid {
						o.core = i + 1
					}
				}
			}
		}
		if hosts, herr := peer.GetDataStore(TableHosts); herr == nil {
			names := []string{}
			nameCol := hosts.table.GetColumn("name")
			for _, row := range hosts.data {
				names = append(names, row.GetString(nameCol))
			}
			o.dset = c13HostsDset(names, cores)
			if isQuery && !queryFailed {
				if qd := c13HostsDset(queryHosts, cores); qd != o.dset {
					notes = append(notes, "query answered from another object set than GetDataStore holds")
					o.dset = qd
				}
			}
		}
		obs = append(obs, o)
	}

	return obs, notes
}

// ---- Coq emission ---------------------------------------------------------------------

func c13ModeCoq(name string) string {
	switch name {
	case "ok":
		return "MOk"
	case "garbage":
		return "MGarbage"
	default:
		return "MRefuse"
	}
}

func c13Coq(idx int, in *c13Input, obs []c13Obs, fixed bool) string {
	modes := []string{}
	for _, m := range in.Modes {
		modes = append(modes, c13ModeCoq(m))
	}
	events := []string{}
	for _, ev := range in.Events {
		switch ev.Kind {
		case "init":
			events = append(events, "EInit")
		case "setmode":
			events = append(events, fmt.Sprintf("ESetMode %d%%nat %s", ev.Addr, c13ModeCoq(ev.Mode)))
		case "tick":
			events = append(events, "ETick "+coqBool(ev.Minute))
		case "pass":
			events = append(events, fmt.Sprintf("EPass %d", ev.D*1000+int(c13PassFraction*1000)))
		case "restart":
			events = append(events, "ERestart "+coqBool(ev.Changed))
		case "ready":
			events = append(events, "EReady "+coqBool(ev.On))
		default:
			events = append(events, "EQuery")
		}
	}
	os := []string{}
	for _, o := range obs {
		addr := o.addr
		if addr < 0 {
			addr = 99
		}
		os = append(os, fmt.Sprintf("mkObs %s %s %s %s %d%%nat %s %s %d%%nat %d%%nat", o.status, coqBool(o.err), coqBool(o.idling), coqBool(o.failed), addr,
			coqBool(o.online), coqBool(o.bygroup), o.core, o.dset))
	}

	return fmt.Sprintf("Definition c%d : case := mkCase (mkCfg %d %d %d %d %d%%nat %d%%nat %s) %s %s %s.\n", idx,
		in.Stale*1000, in.IdleTimeout*1000, in.Update*1000, in.IdleInt*1000, in.NSrc, in.NFb, coqBool(fixed),
		coqList(modes), coqList(events), coqList(os))
}

// ---- generator ------------------------------------------------------------------------

func c13Gen(r *vRand) *c13Input {
	in := &c13Input{
		Stale:       vPick(r, []int{10, 30}),
		IdleTimeout: vPick(r, []int{20, 120}),
		Update:      vPick(r, []int{3, 7}),
		IdleInt:     vPick(r, []int{40, 1800}),
		NSrc:        vPick(r, []int{1, 1, 2, 2, 3}),
		NFb:         vPick(r, []int{0, 0, 0, 1, 2}),
	}
	nAddr := in.NSrc + in.NFb
	for range nAddr {
		in.Modes = append(in.Modes, vPick(r, []string{"ok", "ok", "ok", "ok", "refuse", "garbage", "dead"}))
	}
	live := []int{}
	for i, m := range in.Modes {
		if m != "dead" {
			live = append(live, i)
		}
	}
	if !r.chance(1, 10) {
		in.Events = append(in.Events, c13Event{Kind: "init"})
	}
	passes := 0
	pass := func(d int) {
		if passes < 10 {
			passes++
			in.Events = append(in.Events, c13Event{Kind: "pass", D: d})
		}
	}
	n := 6 + r.intn(16)
	ready := true
	for range n {
		switch k := r.intn(100); {
		case k >= 96:
			// the partner stops / starts answering the status query with a row
			ready = !ready
			if !ready && r.chance(1, 3) {
				// ... right when its core has been restarted
				in.Events = append(in.Events, c13Event{Kind: "restart", Changed: r.chance(1, 2), How: vPick(r, []string{"ps", "pid", "both"})})
			}
			in.Events = append(in.Events, c13Event{Kind: "ready", On: ready})
			if r.chance(2, 3) {
				pass(in.Update)
				in.Events = append(in.Events, c13Event{Kind: "tick", Minute: r.chance(1, 8)})
			}
			if !ready && r.chance(1, 2) {
				ready = true
				in.Events = append(in.Events, c13Event{Kind: "ready", On: true})
				pass(in.Update)
				in.Events = append(in.Events, c13Event{Kind: "tick"})
			}
		case k < 9:
			// the core behind the backend restarts (whatever the backend answers at the moment) ...
			in.Events = append(in.Events, c13Event{Kind: "restart", Changed: r.chance(1, 2), How: vPick(r, []string{"ps", "pid", "both"})})
			if r.chance(1, 2) {
				// ... and the next regular update notices it
				pass(in.Update)
				in.Events = append(in.Events, c13Event{Kind: "tick", Minute: r.chance(1, 8)})
			}
		case k < 25 && len(live) > 0:
			in.Events = append(in.Events, c13Event{Kind: "setmode", Addr: vPick(r, live), Mode: vPick(r, []string{"ok", "ok", "ok", "refuse", "refuse", "garbage"})})
		case k < 45:
			// one regular update cycle
			pass(in.Update)
			in.Events = append(in.Events, c13Event{Kind: "tick", Minute: r.chance(1, 8)})
		case k < 65:
			in.Events = append(in.Events, c13Event{Kind: "tick", Minute: r.chance(1, 5)})
		case k < 85:
			ds := []int{1, 2, 4, 8, in.Update, in.Stale, in.Stale - 1, in.IdleTimeout, in.IdleTimeout - 1, in.IdleInt, in.IdleInt - 1, 2 * in.IdleInt, 12, 35, 150}
			pass(vPick(r, ds))
		default:
			in.Events = append(in.Events, c13Event{Kind: "query"})
		}
	}

	return in
}

// c13ProbeFixed runs the witness of notes/C13.md (defect "up without data") against the code under test:
// two sources, the active one starts refusing after the stale timeout has passed, the other one answers.
// The pinned code ends up with status up and no data; the repaired code re-creates the objects.
func c13ProbeFixed() bool {
	in := &c13Input{Stale: 10, IdleTimeout: 120, Update: 3, IdleInt: 40, NSrc: 2, NFb: 0, Modes: []string{"ok", "ok"},
		Events: []c13Event{{Kind: "init"}, {Kind: "pass", D: 11}, {Kind: "setmode", Addr: 0, Mode: "refuse"}, {Kind: "tick"}}}
	obs, _ := c13RunCase(999999, in)
	last := obs[len(obs)-1]

	return !(last.status == "Up" && last.failed)
}

func c13Main(args []string) int {
	flags := verifParseStreamFlags("c13avail", args)
	meta := newVMeta("avail", "generated event sequences (6..26 events: set the mode ok/refuse/garbage of one address, the core behind the backend restarts "+
		"(program_start / nagios_pid / both change in the status row of all addresses, same objects or one more host), the partner stops / starts "+
		"answering the status query with a row (zero rows = peered partner not ready), one periodicUpdate with/without a "+
		"wall clock minute change, d seconds pass (<= 10 per sequence, d from a list that contains every configured interval and interval-1), client data query) "+
		"on one peer with 1..3 source and 0..2 fallback addresses (scripted backends or dead sockets); StaleBackendTimeout in {10,30}, IdleTimeout in {20,120}, "+
		"UpdateInterval in {3,7}, IdleInterval in {40,1800}; BackendKeepAlive off. non-trivial: at least one failure and one recovery observed; distinct by input")
	inputs := []*c13Input{}
	if flags.replay != "" {
		vReadReplay(flags.replay, &inputs)
	} else {
		rnd := newVRand(flags.seed*0x2545F4914F6CDD1D + 0x13)
		for range flags.n {
			inputs = append(inputs, c13Gen(rnd.fork()))
		}
	}
	// the defect "up without data" has been repaired in /repo (fix: commit, see known_findings.json):
	// the implementation is always compared with the repaired model, so the defect is reported if it returns
	probed := c13ProbeFixed()
	fixed := true
	if !probed {
		meta.count("WARNING: up-without-data witness reproduces on this tree")
	}
	if fixed {
		meta.count("code=repaired (up-without-data witness does not reproduce): compared with the model for c_fixed=true")
	} else {
		meta.count("code=pinned (up-without-data witness reproduces): compared with the model for c_fixed=false")
	}
	results := make([][]c13Obs, len(inputs))
	notes := make([][]string, len(inputs))
	var wg sync.WaitGroup
	jobs := make(chan int)
	for range 8 {
		wg.Add(1)
		go func() {
			defer wg.Done()
			for i := range jobs {
				results[i], notes[i] = c13RunCase(i, inputs[i])
			}
		}()
	}
	for i := range inputs {
		jobs <- i
	}
	close(jobs)
	wg.Wait()

	var sb strings.Builder
	sb.WriteString("From LMD Require Import C13.Run.\nOpen Scope Z_scope.\n")
	names := []string{}
	for i, in := range inputs {
		sb.WriteString(c13Coq(i, in, results[i], fixed))
		names = append(names, fmt.Sprintf("c%d", i))
		sawFail, sawRecover, wasBad := false, false, false
		prev := c13Obs{}
		for oi, o := range results[i] {
			if oi > 0 && prev.core != 0 && o.core != 0 && o.core != prev.core {
				meta.count("resync after a core restart: entered from " + prev.status + ", ended " + o.status)
			}
			if o.bygroup {
				meta.count("bygroup=refused")
			}
			if oi > 0 && o.status == "Down" && prev.status != "Down" && in.Events[oi].Kind == "tick" {
				meta.count("tick ended down, entered from " + prev.status)
			}
			prev = o
			meta.count("status=" + o.status)
			if o.idling {
				meta.count("idling=yes")
			}
			if o.failed {
				meta.count("failed=yes")
			}
			if o.failed && o.status == "Up" {
				meta.count("defect=up-without-data observed")
			}
			if o.status == "Up" && !o.failed && wasBad {
				sawRecover = true
			}
			if o.status == "Warning" || o.status == "Down" {
				sawFail, wasBad = true, true
			}
		}
		for _, ev := range in.Events {
			meta.count("event=" + ev.Kind)
		}
		meta.count(fmt.Sprintf("sources=%d", in.NSrc))
		meta.count(fmt.Sprintf("fallbacks=%d", in.NFb))
		for _, n := range notes[i] {
			meta.count("note=" + n)
		}
		key, _ := json.Marshal(in)
		meta.add(string(key), sawFail && sawRecover, in)
	}
	sb.WriteString("Definition cases : list case := " + coqList(names) + ".\n")
	sb.WriteString("Definition M := Eval vm_compute in mismatches cases.\nPrint M.\n")
	if err := os.WriteFile(flags.out, []byte(sb.String()), 0o644); err != nil {
		panic(err)
	}
	meta.write(flags.meta)

	return 0
}
