//go:build verif

package lmd

// c14_gen.go - C14 translator `gen` -> Gen/Locks.v: the LOCK COVERAGE MATRIX of the request path.
//
// For EVERY table (aliases once, the pass-through table log left out) x EVERY column of Objects.Tables:
//
//	(a) locks: the tables the real code read-locks for a request that uses the column, per position of the
//	    column in the request (Columns, Filter, Sort, Stats counter, Stats sum, group key): the request text goes
//	    through the real NewRequest(ParseOptimize), the result is what the real Response.getAffectedTables
//	    returns for it, in its order (lockStores takes the locks in this order and skips virtual tables: the
//	    obligations filter them out with the ids of the tables whose `virtual` resolver is set);
//	(b) reads: the stored tables the column's value READS,
//	    static:  from the code's own metadata (LocalStore in a stored table -> that table; RefStore ->
//	             RefColTableName and whatever the referenced column reads),
//	    dynamic: measured. A real Daemon is built through the importer from the C09 probe dataset (three backend
//	             flavours; hosts and services with comments and downtimes, groups, contacts ...). Every column of
//	             every row of every table is serialised with the code's own DataRow.WriteJSONColumn (virtual tables:
//	             on the store their resolver built BEFORE, like a response that holds it). Then, for each stored
//	             table T, the rows of T are changed IN PLACE under T's write lock (all cells bumped; all cells
//	             zeroed; the store emptied: data, index, index2) and everything is serialised again: a column whose
//	             bytes differ for some row reads T. T is restored afterwards.
//	    reads = static + dynamic. Columns whose value changes without any perturbation (localtime) are marked
//	    volatile: for them only the static part is known.
//
// The obligations (coq/theories/C14/GenLocksProofs.v, by vm_compute over the finite table): reads are a
// subset of the locked tables for every entry and accepted position, the locked tables are in strictly
// increasing id order, every table x column of Gen/Schema.v has an entry. Nothing here knows the names of
// particular columns.

import (
	"bufio"
	"context"
	"encoding/json"
	"fmt"
	"sort"
	"strings"
	"time"

	jsoniter "github.com/json-iterator/go"
)

func init() {
	verifGenExtra["Locks.v"] = c14GenLocks
	c14ProbeSource = func() []c14Probe { return c14UnlockedProbes(c14LockMatrix()) }
	verifRegister("c14locks", "C14: print Gen/Locks.v only, or with --unlocked the columns that read a table they do not lock", func(args []string) int {
		if len(args) > 0 && args[0] == "--unlocked" {
			buf, _ := json.MarshalIndent(c14UnlockedProbes(c14LockMatrix()), "", " ")
			fmt.Println(string(buf))

			return 0
		}
		fmt.Print(c14GenLocks())

		return 0
	})
}

// c14LockUsage is one position of a column in a request.
type c14LockUsage struct {
	Coq   string
	lines func(col *Column) [][]string // candidate header lines, the first that parses is used
}

func c14LockArg(col *Column) string {
	switch col.DataType {
	case IntCol, Int64Col, FloatCol, Int64ListCol:
		return "1"
	case CustomVarCol:
		return "FOO 1"
	default:
		return "alpha"
	}
}

var c14LockUsages = []c14LockUsage{
	{Coq: "LCol", lines: func(col *Column) [][]string { return [][]string{{"Columns: " + col.Name}} }},
	{Coq: "LFilter", lines: func(col *Column) [][]string {
		arg := c14LockArg(col)

		return [][]string{{"Filter: " + col.Name + " = " + arg}, {"Filter: " + col.Name + " >= " + arg}, {"Filter: " + col.Name + " ~ " + arg}}
	}},
	{Coq: "LSort", lines: func(col *Column) [][]string {
		// sorted by the column, another column requested: the sort position on its own
		first := "Columns: " + col.Table.columns[0].Name

		return [][]string{{first, "Sort: " + col.Name + " asc"}, {first, "Sort: " + col.Name + " FOO asc"}, {"Columns: " + col.Name, "Sort: " + col.Name + " asc"}}
	}},
	{Coq: "LStats", lines: func(col *Column) [][]string {
		arg := c14LockArg(col)

		return [][]string{{"Stats: " + col.Name + " = " + arg}, {"Stats: " + col.Name + " >= " + arg}, {"Stats: " + col.Name + " ~ " + arg}}
	}},
	{Coq: "LStatsSum", lines: func(col *Column) [][]string { return [][]string{{"Stats: sum " + col.Name}} }},
	{Coq: "LGroup", lines: func(col *Column) [][]string {
		arg := c14LockArg(col)

		return [][]string{{"Columns: " + col.Name, "Stats: " + col.Name + " = " + arg}, {"Columns: " + col.Name, "Stats: " + col.Name + " >= " + arg},
			{"Columns: " + col.Name, "Stats: " + col.Name + " ~ " + arg}}
	}},
}

type c14LockSet struct {
	Usage    string      `json:"usage"`
	Accepted bool        `json:"accepted"`
	Request  string      `json:"request"`
	Tables   []TableName `json:"tables"` // getAffectedTables, in its order
}

type c14LockEntry struct {
	Table    TableName
	Column   string
	Locks    []c14LockSet
	Static   []TableName
	Dynamic  []TableName
	Volatile bool
}

func (e *c14LockEntry) reads() []TableName {
	set := map[TableName]bool{}
	for _, t := range e.Static {
		set[t] = true
	}
	for _, t := range e.Dynamic {
		set[t] = true
	}

	return c14SortedTables(set)
}

func c14SortedTables(set map[TableName]bool) []TableName {
	res := make([]TableName, 0, len(set))
	for t := range set {
		res = append(res, t)
	}
	sort.Slice(res, func(i, j int) bool { return res[i] < res[j] })

	return res
}

// c14MatrixTables: the tables of the matrix (as in Gen/Schema.v: aliases once; without pass-through tables)
func c14MatrixTables() []*Table {
	res := []*Table{}
	for _, tn := range genTableNames() {
		table := Objects.Tables[tn]
		if table.name != tn || table.passthroughOnly {
			continue
		}
		res = append(res, table)
	}

	return res
}

// c14StoredTables: the tables a DataStoreSet holds (the ones with a lock of their own)
func c14StoredTables() []TableName {
	res := []TableName{}
	for _, table := range c14MatrixTables() {
		if table.virtual == nil {
			res = append(res, table.name)
		}
	}

	return res
}

// c14AffectedTables asks the code under test which tables the request locks (ok=false: the request is rejected).
func c14AffectedTables(lmd *Daemon, text string) (tables []TableName, ok bool) {
	defer func() {
		if r := recover(); r != nil {
			tables, ok = nil, false
		}
	}()
	req, _, err := NewRequest(context.Background(), lmd, bufio.NewReader(strings.NewReader(text)), ParseOptimize)
	if err != nil || req == nil {
		return nil, false
	}
	res := &Response{request: req}

	return res.getAffectedTables(Objects.Tables[req.Table]), true
}

// c14StaticReads: what the column metadata says about the stored tables a column reads.
func c14StaticReads(table *Table, col *Column, depth int) map[TableName]bool {
	set := map[TableName]bool{}
	switch col.StorageType {
	case LocalStore:
		if table.virtual == nil {
			set[table.name] = true
		}
	case RefStore:
		if col.RefCol != nil && depth < 4 {
			ref := Objects.Tables[col.RefColTableName]
			if ref != nil && ref.virtual == nil {
				set[ref.name] = true
			}
			if ref != nil {
				for t := range c14StaticReads(ref, col.RefCol, depth+1) {
					set[t] = true
				}
			}
		}
	case VirtualStore:
		// calculated: only the measurement knows
	}

	return set
}

// ---- measurement -----------------------------------------------------------------------------------

type c14EvalKey struct {
	table TableName
	col   string
}

type c14Evaluator struct {
	lmd    *Daemon
	peers  []*Peer
	stores map[*Peer]map[TableName]*DataStore // per peer and matrix table: the store a response would iterate
}

func c14NewEvaluator(lmd *Daemon) *c14Evaluator {
	ev := &c14Evaluator{lmd: lmd, stores: map[*Peer]map[TableName]*DataStore{}}
	for _, id := range lmd.PeerMapOrder {
		peer := lmd.PeerMap[id]
		ev.peers = append(ev.peers, peer)
		ev.stores[peer] = map[TableName]*DataStore{}
		for _, table := range c14MatrixTables() {
			func() {
				defer func() { _ = recover() }()
				store, err := peer.GetDataStore(table.name)
				if err == nil && store != nil {
					ev.stores[peer][table.name] = store
				}
			}()
		}
	}

	return ev
}

func c14EvalCell(stream *jsoniter.Stream, row *DataRow, col *Column) (val string) {
	defer func() {
		if r := recover(); r != nil {
			stream.Reset(nil)
			val = fmt.Sprintf("PANIC %v", r)
		}
	}()
	stream.Reset(nil)
	row.WriteJSONColumn(stream, col)
	val = string(stream.Buffer())
	if col.DataType == CustomVarCol {
		// a Go map: serialised in no particular order
		var tmp interface{}
		if err := json.Unmarshal([]byte(val), &tmp); err == nil {
			if buf, err2 := json.Marshal(tmp); err2 == nil {
				val = string(buf)
			}
		}
	}

	return val
}

// evalAll serialises every column of every row of every table.
func (ev *c14Evaluator) evalAll() map[c14EvalKey][]string {
	res := map[c14EvalKey][]string{}
	stream := jsoniter.ConfigCompatibleWithStandardLibrary.BorrowStream(nil)
	defer jsoniter.ConfigCompatibleWithStandardLibrary.ReturnStream(stream)
	for _, table := range c14MatrixTables() {
		for _, col := range table.columns {
			if table.GetColumn(col.Name) != col {
				continue // shadowed by a later column of the same name: no request can name it
			}
			key := c14EvalKey{table.name, col.Name}
			vals := []string{}
			for _, peer := range ev.peers {
				store := ev.stores[peer][table.name]
				if store == nil {
					continue
				}
				for _, row := range store.data {
					vals = append(vals, c14EvalCell(stream, row, col))
				}
			}
			res[key] = vals
		}
	}

	return res
}

func c14SameVals(a, b []string) bool {
	if len(a) != len(b) {
		return false
	}
	for i := range a {
		if a[i] != b[i] {
			return false
		}
	}

	return true
}

// c14SavedRow keeps the cells of one row while they are perturbed.
type c14SavedRow struct {
	row   *DataRow
	saved DataRow
}

type c14SavedStore struct {
	store          *DataStore
	rows           []c14SavedRow
	data           []*DataRow
	index          map[string]*DataRow
	index2         map[string]map[string]*DataRow
	indexLowerCase map[string][]string
}

// c14Perturb changes the content of one stored table of all peers in place, under the table's write lock.
// variant 0: every cell bumped, 1: every cell zeroed, 2: the store emptied.
func (ev *c14Evaluator) perturb(name TableName, variant int) []*c14SavedStore {
	saved := []*c14SavedStore{}
	for _, peer := range ev.peers {
		data := peer.data.Load()
		if data == nil {
			continue
		}
		store := data.Get(name)
		if store == nil {
			continue
		}
		store.lock.Lock()
		keep := &c14SavedStore{store: store, data: store.data, index: store.index, index2: store.index2, indexLowerCase: store.indexLowerCase}
		switch variant {
		case 2:
			store.data = []*DataRow{}
			store.index = map[string]*DataRow{}
			store.index2 = map[string]map[string]*DataRow{}
			store.indexLowerCase = map[string][]string{}
		default:
			for _, row := range store.data {
				sr := c14SavedRow{row: row}
				sr.saved.dataString = row.dataString
				sr.saved.dataInt = row.dataInt
				sr.saved.dataInt64 = row.dataInt64
				sr.saved.dataFloat = row.dataFloat
				sr.saved.dataStringList = row.dataStringList
				sr.saved.dataInt64List = row.dataInt64List
				sr.saved.dataServiceMemberList = row.dataServiceMemberList
				sr.saved.dataStringLarge = row.dataStringLarge
				sr.saved.dataInterfaceList = row.dataInterfaceList
				keep.rows = append(keep.rows, sr)
				bump := variant == 0
				row.dataString = make([]string, len(sr.saved.dataString))
				for i, v := range sr.saved.dataString {
					if bump {
						row.dataString[i] = v + "~c14"
					}
				}
				row.dataInt = make([]int8, len(sr.saved.dataInt))
				for i, v := range sr.saved.dataInt {
					if bump {
						row.dataInt[i] = v + 1
					}
				}
				row.dataInt64 = make([]int64, len(sr.saved.dataInt64))
				for i, v := range sr.saved.dataInt64 {
					if bump {
						row.dataInt64[i] = v + 1
					}
				}
				row.dataFloat = make([]float64, len(sr.saved.dataFloat))
				for i, v := range sr.saved.dataFloat {
					if bump {
						row.dataFloat[i] = v + 1
					}
				}
				row.dataStringList = make([][]string, len(sr.saved.dataStringList))
				for i, v := range sr.saved.dataStringList {
					row.dataStringList[i] = []string{}
					if bump {
						row.dataStringList[i] = append(append([]string{}, v...), "~c14")
					}
				}
				row.dataInt64List = make([][]int64, len(sr.saved.dataInt64List))
				for i, v := range sr.saved.dataInt64List {
					row.dataInt64List[i] = []int64{}
					if bump {
						row.dataInt64List[i] = append(append([]int64{}, v...), 987654321)
					}
				}
				row.dataServiceMemberList = make([][]ServiceMember, len(sr.saved.dataServiceMemberList))
				for i, v := range sr.saved.dataServiceMemberList {
					row.dataServiceMemberList[i] = []ServiceMember{}
					if bump {
						row.dataServiceMemberList[i] = append(append([]ServiceMember{}, v...), ServiceMember{"~c14", "~c14"})
					}
				}
				row.dataStringLarge = make([]StringContainer, len(sr.saved.dataStringLarge))
				for i := range sr.saved.dataStringLarge {
					txt := ""
					if bump {
						txt = sr.saved.dataStringLarge[i].String() + "~c14"
					}
					row.dataStringLarge[i].Set(&txt)
				}
				row.dataInterfaceList = make([][]interface{}, len(sr.saved.dataInterfaceList))
				for i, v := range sr.saved.dataInterfaceList {
					row.dataInterfaceList[i] = []interface{}{}
					if bump {
						row.dataInterfaceList[i] = append(append([]interface{}{}, v...), "~c14")
					}
				}
			}
		}
		store.lock.Unlock()
		saved = append(saved, keep)
	}

	return saved
}

func c14Restore(saved []*c14SavedStore) {
	for _, keep := range saved {
		store := keep.store
		store.lock.Lock()
		store.data, store.index, store.index2, store.indexLowerCase = keep.data, keep.index, keep.index2, keep.indexLowerCase
		for i := range keep.rows {
			sr := &keep.rows[i]
			sr.row.dataString = sr.saved.dataString
			sr.row.dataInt = sr.saved.dataInt
			sr.row.dataInt64 = sr.saved.dataInt64
			sr.row.dataFloat = sr.saved.dataFloat
			sr.row.dataStringList = sr.saved.dataStringList
			sr.row.dataInt64List = sr.saved.dataInt64List
			sr.row.dataServiceMemberList = sr.saved.dataServiceMemberList
			sr.row.dataStringLarge = sr.saved.dataStringLarge
			sr.row.dataInterfaceList = sr.saved.dataInterfaceList
		}
		store.lock.Unlock()
	}
}

// c14LockMatrix computes all entries (deterministic for one tree).
func c14LockMatrix() []*c14LockEntry {
	lmd := c09Load()
	ev := c14NewEvaluator(lmd)
	base := ev.evalAll()
	time.Sleep(3 * time.Millisecond)
	again := ev.evalAll()
	dynamic := map[c14EvalKey]map[TableName]bool{}
	for _, stored := range c14StoredTables() {
		for variant := 0; variant < 3; variant++ {
			saved := ev.perturb(stored, variant)
			vals := ev.evalAll()
			c14Restore(saved)
			for key, val := range vals {
				if !c14SameVals(val, base[key]) {
					if dynamic[key] == nil {
						dynamic[key] = map[TableName]bool{}
					}
					dynamic[key][stored] = true
				}
			}
		}
	}
	// the perturbations left nothing behind
	final := ev.evalAll()
	entries := []*c14LockEntry{}
	for _, table := range c14MatrixTables() {
		for _, col := range table.columns {
			if table.GetColumn(col.Name) != col {
				continue // shadowed by a later column of the same name (by-group tables: peer_key): no request can name it
			}
			key := c14EvalKey{table.name, col.Name}
			entry := &c14LockEntry{Table: table.name, Column: col.Name, Static: c14SortedTables(c14StaticReads(table, col, 0))}
			entry.Volatile = !c14SameVals(base[key], again[key]) || !c14SameVals(base[key], final[key])
			if !entry.Volatile {
				entry.Dynamic = c14SortedTables(dynamic[key])
			}
			for i := range c14LockUsages {
				usage := &c14LockUsages[i]
				set := c14LockSet{Usage: usage.Coq}
				for _, lines := range usage.lines(col) {
					text := "GET " + table.name.String() + "\n" + strings.Join(lines, "\n") + "\n\n"
					tables, ok := c14AffectedTables(lmd, text)
					if ok {
						set.Accepted, set.Request, set.Tables = true, text, tables

						break
					}
				}
				entry.Locks = append(entry.Locks, set)
			}
			entries = append(entries, entry)
		}
	}

	return entries
}

func c14UnlockedProbes(entries []*c14LockEntry) []c14Probe {
	probes := []c14Probe{}
	for _, entry := range entries {
		reads := entry.reads()
		for i := range entry.Locks {
			set := &entry.Locks[i]
			if !set.Accepted {
				continue
			}
			locked := map[TableName]bool{}
			names := []string{}
			for _, t := range set.Tables {
				if Objects.Tables[t].virtual == nil {
					locked[t] = true
					names = append(names, t.String())
				}
			}
			missing := []string{}
			for _, t := range reads {
				if !locked[t] {
					missing = append(missing, t.String())
				}
			}
			if len(missing) > 0 {
				probes = append(probes, c14Probe{Table: entry.Table.String(), Column: entry.Column, Usage: set.Usage, Request: set.Request, Locked: names, Unlocked: missing})
			}
		}
	}

	return probes
}

func c14CoqNats(tables []TableName) string {
	parts := make([]string, len(tables))
	for i, t := range tables {
		parts[i] = fmt.Sprintf("%d", int(t))
	}

	return "[" + strings.Join(parts, ";") + "]"
}

func c14GenLocks() string {
	entries := c14LockMatrix()
	var sb strings.Builder
	sb.WriteString("(* GENERATED on every run by `lmdverif gen` (harness/inpkg/c14_gen.go): for every table x column the tables the real\n")
	sb.WriteString("   getAffectedTables locks per position of the column in a request, and the stored tables the column's value reads\n")
	sb.WriteString("   (metadata + measured by perturbing each stored table in place). Do not edit. *)\n")
	sb.WriteString("From LMD Require Import Base.Str C14.Locks.\nOpen Scope nat_scope.\nOpen Scope string_scope.\n\n")
	ids, virt, stored := []string{}, []string{}, []string{}
	for _, tn := range genTableNames() {
		table := Objects.Tables[tn]
		if table.name != tn {
			continue
		}
		ids = append(ids, fmt.Sprintf("(%d, %s)", int(tn), coqStr(tn.String())))
		if table.virtual != nil {
			virt = append(virt, fmt.Sprintf("%d", int(tn)))
		}
	}
	for _, tn := range c14StoredTables() {
		stored = append(stored, fmt.Sprintf("%d", int(tn)))
	}
	sb.WriteString("Definition lk_tables : list (nat * str) := " + coqList(ids) + ".\n")
	sb.WriteString("Definition lk_virtual : list nat := " + coqList(virt) + ".\n")
	sb.WriteString("Definition lk_stored : list nat := " + coqList(stored) + ".\n\n")
	tnames := []string{}
	counts := map[string]int{}
	ti := -1
	var cur TableName
	cnames := []string{}
	flush := func() {
		if ti < 0 {
			return
		}
		name := fmt.Sprintf("lt_%d", ti)
		fmt.Fprintf(&sb, "Definition %s : ltable := mkLT %s %d %s.\n\n", name, coqStr(cur.String()), int(cur), coqList(cnames))
		tnames = append(tnames, name)
	}
	for _, entry := range entries {
		if ti < 0 || entry.Table != cur {
			flush()
			ti++
			cur = entry.Table
			cnames = []string{}
		}
		locks := []string{}
		for i := range entry.Locks {
			set := &entry.Locks[i]
			if set.Accepted {
				locks = append(locks, fmt.Sprintf("(%s, Some %s)", set.Usage, c14CoqNats(set.Tables)))
				counts["accepted"]++
			} else {
				locks = append(locks, fmt.Sprintf("(%s, None)", set.Usage))
				counts["rejected"]++
			}
		}
		name := fmt.Sprintf("l_%d_%d", ti, len(cnames))
		fmt.Fprintf(&sb, "Definition %s : lentry := mkL %s %s %s %s %s.\n", name, coqStr(entry.Column), coqList(locks),
			c14CoqNats(entry.Static), c14CoqNats(entry.Dynamic), coqBool(entry.Volatile))
		cnames = append(cnames, name)
		counts["entries"]++
		if entry.Volatile {
			counts["volatile"]++
		}
		if len(entry.reads()) > 1 {
			counts["reading more than one table"]++
		}
	}
	flush()
	sb.WriteString("Definition lock_matrix : list ltable := " + coqList(tnames) + ".\n\n")
	keys := make([]string, 0, len(counts))
	for k := range counts {
		keys = append(keys, k)
	}
	sort.Strings(keys)
	sb.WriteString("(*")
	for _, k := range keys {
		fmt.Fprintf(&sb, " %s=%d", k, counts[k])
	}
	sb.WriteString(" *)\n")

	return sb.String()
}
