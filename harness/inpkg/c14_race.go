//go:build verif

package lmd

// c14_race.go - C14 stream `c14race` (EXPLORATION, NOT PROOF): generates concurrency scenarios, runs
// each one in the race-detector build of this harness (`<racebin> c14worker`, see c14_worker.go), parses
// the race detector's and go-deadlock's reports from its stderr and writes the observations as Coq cases
// for C14.Run (which only re-checks simple predicates over them: uniform stamp vectors, singleton
// generation/epoch sets, lock lists in increasing table id order, no report, no crash).
//
// The lock acquisition order is observed on the REAL getAffectedTables of the code under test for every
// query kind a scenario uses (deterministic part of the lock_order_acyclic hypothesis).

import (
	"bufio"
	"bytes"
	"context"
	"encoding/json"
	"flag"
	"fmt"
	"os"
	"os/exec"
	"path/filepath"
	"regexp"
	"slices"
	"sort"
	"strings"
	"sync/atomic"
	"time"
)

func init() {
	verifRegister("c14race", "C14: concurrency scenarios in the -race build, reports parsed (exploration)", c14RaceMain)
}

// c14Report is one race detector report reduced to what identifies it.
type c14Report struct {
	Pair    string   `json:"pair"`    // "ctxA/topA || ctxB/topB", the two sides sorted
	Sides   []string `json:"sides"`   // lmd frames of both accesses, innermost first
	Harness bool     `json:"harness"` // one access is in harness code itself
	Text    string   `json:"text"`
}

// frames that tell WHO accesses (the role in the locking protocol) rather than the accessor helper on top
var c14ContextFrames = []string{
	"waitcondition", "waitConditionTableMatches", "updateTimeperiodsData", "prepareDataUpdateSet", "insertDeltaDataResult",
	"buildDowntimeCommentsList", "updateDeltaCommentsOrDowntimes", "AppendData", "getMissingTimestamps", "maxIDOrSizeChanged",
	"VirtualColServicesWithInfo", "VirtualColMembersWithState", "VirtualColCommentsWithInfo", "VirtualColDowntimesWithInfo",
	"GetGroupByData", "gatherResultRows", "gatherStatsResult", "WriteDataResponse", "PostProcessing", "CreateObjectByType", "SetReferences",
	"InitAllTables", "UpdateFullTable", "hasChanged", "checkStatusFlags", "ResumeFromIdle", "periodicUpdate", "NewDataStore",
}

var c14FuncRe = regexp.MustCompile(`^  ([^ ].*)\(\)$`)

func c14ShortFunc(name string) string {
	name = strings.TrimPrefix(name, "pkg/lmd.")
	name = strings.ReplaceAll(name, "(*", "")
	name = strings.ReplaceAll(name, ")", "")
	if idx := strings.Index(name, ".func"); idx > 0 {
		name = name[:idx]
	}

	return name
}

// c14ParseRaces extracts the DATA RACE reports of a race detector log.
func c14ParseRaces(log string) []c14Report {
	reports := []c14Report{}
	for _, block := range strings.Split(log, "WARNING: DATA RACE")[1:] {
		if idx := strings.Index(block, "=================="); idx >= 0 {
			block = block[:idx]
		}
		report := c14Report{Text: strings.TrimSpace(block)}
		if len(report.Text) > 6000 {
			report.Text = report.Text[:6000]
		}
		sides := []string{}
		for _, stanza := range strings.Split(block, "\n\n") {
			stanza = strings.TrimLeft(stanza, "\n")
			first := strings.SplitN(stanza, "\n", 2)[0]
			if !(strings.Contains(first, " at 0x") && strings.Contains(first, " by ")) {
				continue
			}
			lines := strings.Split(stanza, "\n")
			frames := []string{}
			for i := 1; i+1 < len(lines); i++ {
				match := c14FuncRe.FindStringSubmatch(lines[i])
				if match == nil {
					continue
				}
				file := strings.TrimSpace(lines[i+1])
				if !strings.Contains(file, "/pkg/lmd/") && !strings.Contains(file, "/harness/inpkg/") {
					continue
				}
				name := c14ShortFunc(match[1])
				if strings.Contains(file, "zz_verif_") || strings.Contains(file, "/harness/inpkg/") {
					name = "HARNESS:" + name
				}
				frames = append(frames, name)
			}
			top, ctx := "?", ""
			if len(frames) > 0 {
				top = frames[0]
				if strings.HasPrefix(top, "HARNESS:") {
					report.Harness = true
				}
			Frames:
				for _, frame := range frames {
					for _, known := range c14ContextFrames {
						if strings.HasSuffix(frame, "."+known) || frame == known {
							ctx = known

							break Frames
						}
					}
				}
				if ctx == "" {
					ctx = frames[len(frames)-1]
				}
			}
			kind := "read"
			if strings.Contains(strings.ToLower(first), "write") {
				kind = "write"
			}
			sides = append(sides, kind+" "+ctx+"/"+top)
			report.Sides = append(report.Sides, strings.Join(frames, " < "))
			if len(sides) == 2 {
				break
			}
		}
		sort.Strings(sides)
		report.Pair = strings.Join(sides, " || ")
		reports = append(reports, report)
	}

	return reports
}

// c14LockOrder asks the code under test which tables a request locks, in acquisition order.
func c14LockOrder(lmd *Daemon, text string) ([]int, error) {
	req, _, err := NewRequest(context.Background(), lmd, bufio.NewReader(strings.NewReader(text)), ParseOptimize)
	if err != nil {
		return nil, err
	}
	res := &Response{request: req}
	order := []int{}
	for _, name := range res.getAffectedTables(Objects.Tables[req.Table]) {
		if Objects.Tables[name].virtual != nil {
			continue // lockStores skips virtual tables
		}
		order = append(order, int(name))
	}

	return order, nil
}

type c14Obs struct {
	scenario  *c14Scenario
	result    *c14Result
	races     []c14Report
	explained []c14Report
	orders    [][]int
	crash     string
	exit      int
	stderr    string
}

// c14ProbeSource reports the requests whose column reads a table they do not lock (set by c14_gen.go, which is not
// part of the race build; nil there)
var c14ProbeSource func() []c14Probe

// race reports that are understood and harmless, by pair (none so far; see notes/C14.md)
var c14Explained = map[string]string{}

func c14GenScenario(rnd *vRand, tier string, idx int) *c14Scenario {
	sc := &c14Scenario{Seed: rnd.next() % 1000000, Peers: 1 + rnd.intn(3), Hosts: 3 + rnd.intn(5), DurationMs: 2200}
	if tier == "thorough" {
		sc.DurationMs = 6000
	}
	sc.Services = sc.Hosts * (1 + rnd.intn(3))
	sc.Parallel = rnd.chance(1, 3)
	sc.KeepAlive = rnd.chance(1, 2)
	// every third scenario: only whole-table updaters, so that the epoch of a table must be uniform
	sc.Epochs = idx%3 == 1
	// every other scenario: comments and downtimes of the backends never change, served lists must be exact
	sc.StaticCD = idx%2 == 0
	nClients := 3 + rnd.intn(3)
	for range nClients {
		kinds := []string{}
		for range 2 + rnd.intn(4) {
			kind := vPick(rnd, c14ClientKinds)
			if sc.Epochs && c14PartialKinds[kind] {
				kind = vPick(rnd, []string{"hosts", "services", "hostsbygroup", "stats", "sums"})
			}
			kinds = append(kinds, kind)
		}
		sc.Clients = append(sc.Clients, kinds)
	}
	// always some plain readers with reference columns
	sc.Clients = append(sc.Clients, []string{"services", "hosts", "servicesbygroup"})
	// ... and two asking for the comment / downtime lists of hosts and services, directly, through reference columns
	// and through the by-group tables
	sc.Clients = append(sc.Clients, []string{"svclists", "virtcols", "comlists"}, []string{"bygrouplists", "downlists", "svclists", "virtcols"})
	// ... and two that wait for a check result which arrives during the wait (two requests for one object at a time)
	sc.Waits = idx%3 == 2
	if sc.Waits {
		sc.Clients = append(sc.Clients, []string{"waitrealhost", "waitrealsvc"}, []string{"waitrealsvc", "waitrealhost"}, []string{"waitrealhost"})
	}
	for range 3 + rnd.intn(5) {
		kind := vPick(rnd, c14UpdaterKinds)
		if sc.Epochs && kind == "idle" {
			kind = "delta"
		}
		if sc.Waits && (kind == "downup" || kind == "broken" || kind == "idle") {
			kind = vPick(rnd, []string{"rebuild", "restart", "delta", "full"})
		}
		sc.Updaters = append(sc.Updaters, kind)
	}
	sc.Updaters = append(sc.Updaters, "delta", "periodic", "rebuild", "restart")
	if !sc.StaticCD {
		sc.Updaters = append(sc.Updaters, "comments")
		sc.Mutators = append(sc.Mutators, "comment", "downtime")
	}
	for range 3 + rnd.intn(4) {
		kind := vPick(rnd, c14MutatorKinds)
		if sc.Epochs && kind == "timeperiod" {
			kind = "epoch"
		}
		sc.Mutators = append(sc.Mutators, kind)
	}
	sc.Mutators = append(sc.Mutators, "row")
	if sc.Epochs {
		sc.Mutators = append(sc.Mutators, "epoch")
	}

	return sc
}

// c14PickProbes: at most n probes, one per table and column (the plain `Columns:` request when there is one), spread
// over the tables that are read without lock
func c14PickProbes(all []c14Probe, n int) []c14Probe {
	perCol := map[string]c14Probe{}
	order := []string{}
	for _, probe := range all {
		key := probe.Table + "." + probe.Column
		if prev, ok := perCol[key]; !ok {
			perCol[key] = probe
			order = append(order, key)
		} else if prev.Usage != "LCol" && probe.Usage == "LCol" {
			perCol[key] = probe
		}
	}
	picked := []c14Probe{}
	seenUnlocked := map[string]int{}
	done := map[string]bool{}
	for round := 0; round < 4 && len(picked) < n; round++ {
		for _, key := range order {
			probe := perCol[key]
			tag := strings.Join(probe.Unlocked, ",")
			if done[key] || seenUnlocked[tag] != round || len(picked) >= n {
				continue
			}
			done[key] = true
			seenUnlocked[tag]++
			picked = append(picked, probe)
		}
	}

	return picked
}

func c14RunScenario(racebin, dir string, idx int, sc *c14Scenario) *c14Obs {
	obs := &c14Obs{scenario: sc}
	scPath := filepath.Join(dir, fmt.Sprintf("c14_scenario_%d.json", idx))
	resPath := filepath.Join(dir, fmt.Sprintf("c14_result_%d.json", idx))
	os.Remove(resPath)
	clean := *sc
	clean.Observed = nil
	buf, _ := json.Marshal(&clean)
	if err := os.WriteFile(scPath, buf, 0o644); err != nil {
		panic(err)
	}
	ctx, cancel := context.WithTimeout(context.Background(), time.Duration(sc.DurationMs)*time.Millisecond+90*time.Second)
	defer cancel()
	cmd := exec.CommandContext(ctx, racebin, "c14worker", "--scenario", scPath, "--result", resPath)
	cmd.Env = append(os.Environ(), "GORACE=halt_on_error=0 exitcode=66 history_size=3")
	var stderr bytes.Buffer
	cmd.Stderr = &stderr
	cmd.Stdout = &stderr
	err := cmd.Run()
	obs.stderr = stderr.String()
	if err != nil {
		obs.exit = -1
		if exitErr, ok := err.(*exec.ExitError); ok { //nolint:errorlint // plain type test
			obs.exit = exitErr.ExitCode()
		}
	}
	for _, report := range c14ParseRaces(obs.stderr) {
		if _, ok := c14Explained[report.Pair]; ok {
			obs.explained = append(obs.explained, report)
		} else {
			obs.races = append(obs.races, report)
		}
	}
	rbuf, rerr := os.ReadFile(resPath)
	if rerr == nil {
		obs.result = &c14Result{}
		if jerr := json.Unmarshal(rbuf, obs.result); jerr != nil {
			obs.result = nil
		}
	}
	switch {
	case obs.result == nil:
		obs.crash = fmt.Sprintf("worker ended with exit code %d without a result: %s", obs.exit, c14Tail2(obs.stderr, 1500))
	case obs.result.Panic != "":
		obs.crash = obs.result.Panic
	case obs.exit != 0 && obs.exit != 66:
		obs.crash = fmt.Sprintf("worker exit code %d: %s", obs.exit, c14Tail2(obs.stderr, 1500))
	}
	if strings.Contains(obs.stderr, "fatal error: ") || strings.Contains(obs.stderr, "Panic: ") || strings.Contains(obs.stderr, "panic: ") {
		if obs.crash == "" {
			obs.crash = "panic / fatal error logged: " + c14Tail2(obs.stderr, 1500)
		}
	}

	return obs
}

// c14QueryTextForOrder is the request text of a client kind (for one fictitious peer).
func c14QueryTextForOrder(sc *c14Scenario, kind string) string {
	cp := &c14Peer{id: "p1", nHosts: 1, nSvcs: 1, hver: make([]atomic.Int64, 1), sver: make([]atomic.Int64, 1)}
	world := &c14World{sc: sc, peers: []*c14Peer{cp}}

	return world.buildQuery(kind, newVRand(1)).text
}

func c14Tail2(txt string, n int) string {
	if len(txt) > n {
		return txt[len(txt)-n:]
	}

	return txt
}

func c14CoqZList(vec []int64) string {
	parts := make([]string, len(vec))
	for i, v := range vec {
		parts[i] = coqZ(v)
	}

	return "[" + strings.Join(parts, ";") + "]"
}

func c14CoqZLists(vecs [][]int64) string {
	parts := make([]string, len(vecs))
	for i, vec := range vecs {
		parts[i] = c14CoqZList(vec)
	}

	return "[" + strings.Join(parts, ";") + "]"
}

func c14Coq(idx int, obs *c14Obs) string {
	res := obs.result
	if res == nil {
		res = &c14Result{}
	}
	orders := make([]string, len(obs.orders))
	for i, order := range obs.orders {
		parts := make([]string, len(order))
		for j, id := range order {
			parts[j] = fmt.Sprintf("%d%%nat", id)
		}
		orders[i] = "[" + strings.Join(parts, ";") + "]"
	}
	races := make([]string, len(obs.races))
	for i, report := range obs.races {
		races[i] = coqStr(report.Pair)
	}
	bad := len(res.Malformed) + len(res.Incomplete) + len(res.FilterViol) + len(res.Future)
	waits := make([]string, len(res.WaitObs))
	for i, wo := range res.WaitObs {
		waits[i] = c14CoqZList(wo)
	}
	lists := make([]string, len(res.ListObs))
	for i, lo := range res.ListObs {
		lists[i] = fmt.Sprintf("(%s, %s, %s)", c14CoqZList(lo[0]), c14CoqZList(lo[1]), c14CoqZList(lo[2]))
	}

	return fmt.Sprintf("Definition c%d : case := mkCase %s\n  %s\n  %s\n  %s\n  %s\n  %d%%nat %s %d%%nat %s\n  %s\n  %s.\n", idx,
		coqList(orders), c14CoqZLists(res.StampVecs), c14CoqZLists(res.SetVecs), c14CoqZLists(res.Stats), c14CoqZLists(res.Sums),
		bad, coqList(races), res.Deadlocks, coqBool(obs.crash != ""), coqList(lists), coqList(waits))
}

func c14RaceMain(args []string) int {
	fs := flag.NewFlagSet("c14race", flag.ExitOnError)
	sf := &verifStreamFlags{}
	fs.Uint64Var(&sf.seed, "seed", 1, "PRNG seed")
	fs.IntVar(&sf.n, "n", 4, "number of generated scenarios")
	fs.StringVar(&sf.out, "out", "cases.v", "output file: Coq cases")
	fs.StringVar(&sf.meta, "meta", "meta.json", "output file: statistics")
	fs.StringVar(&sf.tier, "tier", "quick", "quick|thorough")
	fs.StringVar(&sf.replay, "replay", "", "replay file (scenarios) instead of generating")
	racebin := fs.String("racebin", "/verif/work/C14/lmdverif-race", "harness binary built with -race")
	details := fs.String("details", "", "write all reports in full to this file")
	_ = fs.Parse(args)
	if _, err := os.Stat(*racebin); err != nil {
		fmt.Fprintf(os.Stderr, "c14race: race detector build of the harness missing: %s\n", err)

		return 2
	}
	meta := newVMeta("c14race", "EXPLORATION (not proof): generated scenarios of 1-3 real peers against continuously mutating scripted backends, "+
		"one update-loop goroutine per peer (delta / periodic / per-minute / full / scan / rebuild swap / comment diff / down-up / broken / idle), "+
		"3-7 clients over a real unix listener (data with reference columns, Stats, by-group, virtual columns, WaitTrigger/WaitCondition), a few seconds "+
		"each in the -race build with go-deadlock enabled; distinct stamp vectors per scenario are capped at 250 (all inconsistent ones are kept). "+
		"Backends have comments and downtimes on hosts and services (every other scenario: changing), every update menu has full reloads (rebuild, core restart), "+
		"two clients ask for the comment/downtime lists (own, referenced, by-group): each distinct (served, must, may) is kept (violations first, 250). "+
		"Requests reported by the lock coverage matrix (none when its obligation holds) are sent by two more clients. "+
		"Every third scenario: three clients send pairs of identical WaitTrigger/WaitObject/WaitCondition requests, the check result that meets the condition arrives "+
		"during the wait, the update menu reloads the objects (rebuild, restart) without backend failures; each wait is kept as [elapsed, timeout, margin, threshold, "+
		"served version] (100 ms steps). "+
		"non-trivial: at least 50 answers checked and at least one update of each peer ran concurrently; distinct by scenario")
	scenarios := []*c14Scenario{}
	if sf.replay != "" {
		vReadReplay(sf.replay, &scenarios)
	} else {
		rnd := newVRand(sf.seed)
		for i := range sf.n {
			scenarios = append(scenarios, c14GenScenario(rnd, sf.tier, i))
		}
		// requests the lock coverage matrix reports as reading a table without its lock (none on a tree whose generated
		// obligation holds): one more client sends them while the tables they read change
		if c14ProbeSource != nil {
			probes := c14PickProbes(c14ProbeSource(), 8)
			for _, sc := range scenarios {
				if len(probes) == 0 {
					break
				}
				sc.Probes = probes
				kinds := []string{}
				for i := range probes {
					kinds = append(kinds, fmt.Sprintf("probe%d", i))
				}
				sc.Clients = append(sc.Clients, kinds, kinds)
				if !sc.Epochs {
					sc.StaticCD = false
					sc.Updaters = append(sc.Updaters, "comments", "comments")
					sc.Mutators = append(sc.Mutators, "comment", "downtime")
				}
			}
		}
	}
	dir := filepath.Dir(sf.out)
	lmd := verifNewDaemon()

	var sb strings.Builder
	sb.WriteString("From LMD Require Import C14.Run.\nOpen Scope Z_scope.\n")
	names := []string{}
	all := []map[string]interface{}{}
	for idx, sc := range scenarios {
		obs := c14RunScenario(*racebin, dir, idx, sc)
		// lock order of every query kind of the scenario on the real getAffectedTables
		seenKind := map[string]bool{}
		for _, kinds := range sc.Clients {
			for _, kind := range kinds {
				if seenKind[kind] {
					continue
				}
				seenKind[kind] = true
				order, err := c14LockOrder(lmd, c14QueryTextForOrder(sc, kind))
				if err != nil {
					fmt.Fprintf(os.Stderr, "c14race: request of kind %s does not parse: %s\n", kind, err)

					return 2
				}
				obs.orders = append(obs.orders, order)
				meta.count(fmt.Sprintf("locks:%v", order))
			}
		}
		sb.WriteString(c14Coq(idx, obs))
		names = append(names, fmt.Sprintf("c%d", idx))

		observed := []string{}
		for _, report := range obs.races {
			observed = append(observed, "race: "+report.Pair)
			meta.count("race: " + report.Pair)
		}
		if obs.crash != "" {
			observed = append(observed, "crash")
			meta.count("crash")
		}
		nontrivial := false
		if obs.result != nil {
			res := obs.result
			for key, val := range res.Hist {
				meta.Histogram[key] += val
			}
			meta.Histogram["answers checked"] += res.Responses
			meta.Histogram["rows checked"] += res.Rows
			meta.Histogram["stamp vectors decoded"] += res.VecTotal
			meta.Histogram["informative: row went back to an older version for one client"] += res.Backwards
			if res.Deadlocks > 0 {
				observed = append(observed, "deadlock")
			}
			for _, vec := range res.StampVecs {
				if !c14Uniform(vec) {
					observed = append(observed, "torn")
					meta.count("torn row vectors")

					break
				}
			}
			for _, vec := range res.SetVecs {
				if len(vec) > 1 {
					observed = append(observed, "mixedset")
					meta.count("mixed generation/epoch sets")

					break
				}
			}
			if len(res.Malformed)+len(res.Incomplete)+len(res.FilterViol)+len(res.Future) > 0 {
				observed = append(observed, "malformed")
			}
			if len(res.ListBad) > 0 {
				observed = append(observed, "lists")
				meta.count("comment/downtime lists that do not fit the backend")
			}
			meta.Histogram["comment/downtime lists checked"] += res.ListTotal
			if len(res.WaitBad) > 0 {
				observed = append(observed, "waits")
				meta.count("answers of WaitTrigger requests that do not meet their WaitCondition")
			}
			meta.Histogram["WaitTrigger requests that really waited"] += res.WaitTotal
			updates := 0
			for key, val := range res.Hist {
				if strings.HasPrefix(key, "update:") {
					updates += val
				}
			}
			nontrivial = res.Responses >= 50 && updates >= sc.Peers
		}
		sort.Strings(observed)
		observed = slices.Compact(observed)
		input := *sc
		input.Observed = observed
		key, _ := json.Marshal(sc)
		meta.add(string(key), nontrivial, &input)
		meta.count(fmt.Sprintf("peers=%d", sc.Peers))
		meta.count(fmt.Sprintf("epochs=%v", sc.Epochs))
		meta.count(fmt.Sprintf("static comments/downtimes=%v", sc.StaticCD))
		meta.count(fmt.Sprintf("waits for arriving check results=%v", sc.Waits))
		if len(sc.Probes) > 0 {
			meta.count("scenarios with requests reported by the lock coverage matrix")
		}
		entry := map[string]interface{}{"scenario": &input, "exit": obs.exit, "crash": obs.crash, "result": obs.result}
		reports := []c14Report{}
		reports = append(reports, obs.races...)
		entry["races"] = reports
		entry["explained_races"] = obs.explained
		if obs.crash != "" || (obs.result != nil && obs.result.Deadlocks > 0) {
			entry["stderr_tail"] = c14Tail2(obs.stderr, 8000)
		}
		all = append(all, entry)
	}
	sb.WriteString("Definition cases : list case := " + coqList(names) + ".\n")
	sb.WriteString("Definition M := Eval vm_compute in mismatches cases.\nPrint M.\n")
	if err := os.WriteFile(sf.out, []byte(sb.String()), 0o644); err != nil {
		panic(err)
	}
	meta.write(sf.meta)
	detailPath := *details
	if detailPath == "" {
		detailPath = strings.TrimSuffix(sf.out, ".v") + "_details.json"
	}
	buf, _ := json.MarshalIndent(all, "", " ")
	_ = os.WriteFile(detailPath, buf, 0o644)

	return 0
}
