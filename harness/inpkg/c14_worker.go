//go:build verif

package lmd

// c14_worker.go - C14 stream `c14race`, the part that runs inside the RACE-DETECTOR build of the
// harness (`c14worker`, started once per scenario by c14_race.go).
//
// EXPLORATION, NOT PROOF: real goroutines, real scheduler. One scenario =
//   * 1..3 real Peers of one Daemon, each in front of a scripted backend (vbackend.go) whose hosts /
//     services / hostgroups / comments / downtimes / timeperiods change continuously. Every change of a
//     host or service bumps the row's version v and writes it, in ONE backend step, into a dozen int, float,
//     string and string-list columns of the row (c14StampCols), so a response row whose columns decode to
//     different versions is a torn row. A second stamp (`epoch`, current_notification_number) is bumped for
//     ALL rows of both tables in one backend step, a third one (`gen`, static columns alias/display_name)
//     only changes through a rebuild (InitAllTables).
//   * per peer ONE goroutine playing the peer's update loop (periodicUpdate with shifted timestamps,
//     UpdateDelta, UpdateFull, per-minute refresh, comment/downtime diff, full scan, InitAllTables swaps,
//     backend down/up with stale timeout, broken peer, idle mode) - never two, like the real updateLoop.
//   * k client goroutines talking to a real unix socket listener of the daemon (NewListener ->
//     ClientConnection.Handle -> NewResponse(..., client) -> Send: the path on which the table locks are held
//     until the answer is written): data queries with reference columns, Stats, by-group tables, virtual
//     columns reading other tables, WaitTrigger/WaitCondition queries (whose goroutines call the update
//     functions concurrently with the update loop).
//   * the backends carry comments and downtimes on hosts and services: fixed ones from the start (never removed; the
//     first host and the first service always have both) and, unless the scenario says static_cd, further ones that
//     come and go. Clients ask for `comments`, `downtimes`, `comments_with_info`, `downtimes_with_info` of hosts and
//     services directly (virtcols, svclists), through reference columns (services.host_*, comments/downtimes.host_* and
//     .service_*) and through the by-group tables, while the update loop reloads everything (rebuild, restart = the core
//     got a new program_start, downup with stale timeout): every served id list is recorded with the ids the backend
//     had attached to that object during the whole run (must) and at some time (may).
//   * client kinds probe<N> send the requests the generated lock coverage matrix (c14_gen.go) reports as reading a
//     table they do not lock (scenario field probes; empty on a tree whose obligation holds).
// Observed: decoded stamp vectors of all response rows, generation/epoch sets per response+peer+table,
// Stats counters, malformed/incomplete answers, go-deadlock reports, panics. The race detector's own
// report goes to stderr and is parsed by the caller.

import (
	"bufio"
	"context"
	"encoding/json"
	"flag"
	"fmt"
	"io"
	"net"
	"os"
	"path/filepath"
	"sort"
	"strconv"
	"strings"
	"sync"
	"sync/atomic"
	"time"

	"github.com/sasha-s/go-deadlock"
)

// c14Scenario is the replayable input of one case. Everything the worker does derives from it
// (and from the scheduler, which is not controlled: replay is best effort).
type c14Scenario struct {
	Seed       uint64     `json:"seed"`
	Peers      int        `json:"peers"`
	Hosts      int        `json:"hosts"`    // per peer
	Services   int        `json:"services"` // per peer
	Clients    [][]string `json:"clients"`  // per client: the query kinds it cycles through
	Updaters   []string   `json:"updaters"` // menu of the update loop goroutines
	Mutators   []string   `json:"mutators"` // menu of the backend mutation goroutines
	DurationMs int        `json:"duration_ms"`
	Epochs     bool       `json:"epochs"`   // only whole-table updaters: every response shows one epoch per peer table
	Parallel   bool       `json:"parallel"` // MaxParallelPeerConnections > 1
	KeepAlive  bool       `json:"keepalive"`
	// StaticCD: the comments and downtimes of the backends never change: every served comment / downtime list must be
	// exactly the backend's. Otherwise entries come and go: a list must hold every entry that was attached the whole
	// time and nothing that was never attached to the object.
	StaticCD bool `json:"static_cd"`
	// Waits: clients wait (WaitTrigger) for check results that arrive during the wait; the update menu reloads the objects
	// (rebuild, restart) but never makes the backend fail (lmd ends a wait with the error then)
	Waits bool `json:"waits"`
	// Probes: requests the generated lock coverage matrix reports as reading a table they do not lock (client kinds
	// "probe0", "probe1", ... send them, so that the race detector may show the concurrent access)
	Probes   []c14Probe `json:"probes,omitempty"`
	Observed []string   `json:"observed,omitempty"` // filled in by the caller after the run (ignored here)
}

var c14ClientKinds = []string{"hosts", "hostsfilter", "services", "stats", "sums", "hostsbygroup", "servicesbygroup", "servicesbyhostgroup",
	"waithost", "waitservice", "waittable", "waitmet", "waitgroups", "virtcols", "comments", "downtimes", "hostgroups", "servicegroups",
	"timeperiods", "sites", "status", "statsref", "filterref", "sortref", "svclists", "comlists", "downlists", "bygrouplists",
	"waitrealhost", "waitrealsvc"}

var c14PartialKinds = map[string]bool{"waithost": true, "waitservice": true, "waittable": true, "waitmet": true, "waitgroups": true,
	"waitrealhost": true, "waitrealsvc": true}

var c14UpdaterKinds = []string{"delta", "periodic", "minute", "full", "scan", "rebuild", "restart", "comments", "downup", "broken", "idle"}

var c14MutatorKinds = []string{"row", "row", "row", "epoch", "comment", "downtime", "timeperiod", "group"}

type c14Result struct {
	Responses  int              `json:"responses"`
	Rows       int              `json:"rows"`
	StampVecs  [][]int64        `json:"stamp_vecs"`  // distinct decoded stamp vectors (inconsistent ones first, capped)
	SetVecs    [][]int64        `json:"set_vecs"`    // distinct value sets {gen} / {epoch} per response+peer+table (non singletons first)
	Stats      [][]int64        `json:"stats"`       // distinct [n0 n1 n2 n3 total expected]
	Sums       [][]int64        `json:"sums"`        // distinct [sum current_attempt, sum next_check, sum latency]
	FilterViol [][]int64        `json:"filter_viol"` // [v, bound]: a returned row with v >= bound for `Filter: latency < bound`
	Future     [][]int64        `json:"future"`      // [v, backend version]: a row newer than its backend
	Malformed  []string         `json:"malformed"`
	Incomplete []string         `json:"incomplete"`
	Deadlocks  int              `json:"deadlocks"`
	Panic      string           `json:"panic"`
	Backwards  int              `json:"backwards"` // informative: a client saw a row go back to an older version
	Hist       map[string]int   `json:"hist"`
	VecTotal   int              `json:"vec_total"`
	Torn       []map[string]any `json:"torn"`  // first few torn rows with query kind and raw row
	Mixed      []string         `json:"mixed"` // first few mixed generation/epoch sets
	// ListObs: distinct [served ids, ids that must be there, ids that may be there] of the comment / downtime lists of
	// hosts and services in the answers (violations first, capped); ListBad: the first few violations in words
	ListObs   [][][]int64 `json:"list_obs"`
	ListBad   []string    `json:"list_bad"`
	ListTotal int         `json:"list_total"`
	// WaitObs: distinct [elapsed ms, WaitTimeout ms, margin ms, threshold of the WaitCondition, served version of the
	// WaitObject (-1: its backend is listed as failed)] of WaitTrigger requests that really waited (violations first)
	WaitObs   [][]int64 `json:"wait_obs"`
	WaitBad   []string  `json:"wait_bad"`
	WaitTotal int       `json:"wait_total"`
}

// ---- stamps -------------------------------------------------------------------------------------

const (
	c14KInt = iota
	c14KIntBase
	c14KStrV
	c14KStrVer
	c14KStrLong
	c14KListCV
	c14KListMA
	c14KMod4
)

type c14Col struct {
	name string
	kind int
}

// columns of hosts AND services that carry the row version
var c14StampCols = []c14Col{
	{"last_check", c14KIntBase}, {"next_check", c14KInt}, {"current_attempt", c14KInt}, {"last_state_change", c14KInt},
	{"latency", c14KInt}, {"execution_time", c14KInt}, {"plugin_output", c14KStrV}, {"perf_data", c14KStrVer},
	{"long_plugin_output", c14KStrLong}, {"custom_variable_values", c14KListCV}, {"modified_attributes_list", c14KListMA},
	{"state", c14KMod4},
}

const (
	c14EpochCol = "current_notification_number"
	c14Base     = 1000000
)

// columns of hostgroups that carry the group row's version
var c14GroupCols = []string{"num_hosts_up", "num_hosts_down", "num_hosts_unreach", "num_services_ok", "num_services_warn"}

func c14Encode(kind int, ver int64) interface{} {
	switch kind {
	case c14KInt:
		return float64(ver)
	case c14KIntBase:
		return float64(c14Base + ver)
	case c14KStrV:
		return fmt.Sprintf("v=%d", ver)
	case c14KStrVer:
		return fmt.Sprintf("ver=%d;;;", ver)
	case c14KStrLong:
		return fmt.Sprintf("long output of version %d\\nsecond line", ver)
	case c14KListCV:
		return []interface{}{strconv.FormatInt(ver, 10), "k"}
	case c14KListMA:
		return []interface{}{fmt.Sprintf("m%d", ver)}
	case c14KMod4:
		return float64(ver % 4)
	}
	panic("c14: kind")
}

func c14Num(val interface{}) (int64, bool) {
	f, ok := val.(float64)
	if !ok || f != float64(int64(f)) {
		return 0, false
	}

	return int64(f), true
}

func c14Atoi(txt string) (int64, bool) {
	n, err := strconv.ParseInt(txt, 10, 64)

	return n, err == nil
}

// c14Decode returns the version a serialised column value carries (ok=false: not decodable = malformed).
func c14Decode(kind int, val interface{}) (int64, bool) {
	switch kind {
	case c14KInt, c14KMod4:
		return c14Num(val)
	case c14KIntBase:
		n, ok := c14Num(val)

		return n - c14Base, ok
	case c14KStrV:
		txt, ok := val.(string)
		if !ok || !strings.HasPrefix(txt, "v=") {
			return 0, false
		}

		return c14Atoi(txt[2:])
	case c14KStrVer:
		txt, ok := val.(string)
		if !ok || !strings.HasPrefix(txt, "ver=") || !strings.HasSuffix(txt, ";;;") {
			return 0, false
		}

		return c14Atoi(txt[4 : len(txt)-3])
	case c14KStrLong:
		txt, ok := val.(string)
		if !ok || !strings.HasPrefix(txt, "long output of version ") {
			return 0, false
		}
		rest := txt[len("long output of version "):]
		if idx := strings.Index(rest, "\\n"); idx >= 0 {
			rest = rest[:idx]
		} else if idx := strings.IndexByte(rest, '\n'); idx >= 0 {
			rest = rest[:idx]
		}

		return c14Atoi(rest)
	case c14KListCV:
		list, ok := val.([]interface{})
		if !ok || len(list) != 2 || list[1] != "k" {
			return 0, false
		}
		txt, ok := list[0].(string)
		if !ok {
			return 0, false
		}

		return c14Atoi(txt)
	case c14KListMA:
		list, ok := val.([]interface{})
		if !ok || len(list) != 1 {
			return 0, false
		}
		txt, ok := list[0].(string)
		if !ok || !strings.HasPrefix(txt, "m") {
			return 0, false
		}

		return c14Atoi(txt[1:])
	}

	return 0, false
}

// c14StampVector decodes the stamp columns found at vals[off:]; the `state` column (version mod 4) is
// normalised to the full version when it fits the first decoded one and to -1-state otherwise.
func c14StampVector(vals []interface{}) (vec []int64, ok bool) {
	vec = make([]int64, 0, len(c14StampCols))
	for i, col := range c14StampCols {
		ver, dok := c14Decode(col.kind, vals[i])
		if !dok {
			return nil, false
		}
		if col.kind == c14KMod4 {
			if len(vec) > 0 && vec[0]%4 == ver {
				ver = vec[0]
			} else {
				ver = -1 - ver
			}
		}
		vec = append(vec, ver)
	}

	return vec, true
}

func c14Uniform(vec []int64) bool {
	for _, v := range vec {
		if v != vec[0] {
			return false
		}
	}

	return true
}

func c14StampColumnNames(prefix string) string {
	names := make([]string, 0, len(c14StampCols))
	for _, col := range c14StampCols {
		names = append(names, prefix+col.name)
	}

	return strings.Join(names, " ")
}

// ---- the world -----------------------------------------------------------------------------------

type c14Peer struct {
	id      string
	backend *vBackend
	peer    *Peer
	nHosts  int
	nSvcs   int
	hver    []atomic.Int64 // backend version per host row
	sver    []atomic.Int64
	gver    atomic.Int64 // hostgroup row version
	gen     atomic.Int64
	epoch   atomic.Int64
	nextID  int64   // comments/downtimes ids (mutator goroutine only)
	comIDs  []int64 // mutator goroutine only
	downIDs []int64
	svcKeys [][2]string // the services of the backend (host, description)
	// odd while the update loop makes the backend fail / the peer broken (a wait may then end early with an error)
	disturb atomic.Int64

	// what the backend's comments (0) / downtimes (1) attach to each host ("host") and service ("host;description"):
	// must = attached from the start and never removed, may = must + everything the mutator ever attached
	cdMu   sync.Mutex
	cdMust [2]map[string]map[int64]bool
	cdMay  [2]map[string]map[int64]bool
	cdText [2]map[int64][2]string // id -> author, comment
}

func c14CDKey(host, svc string) string {
	if svc == "" {
		return host
	}

	return host + ";" + svc
}

func c14CommentRow(id int64, host, svc, author, text string) []interface{} {
	isSvc, typ := 0.0, 1.0
	if svc != "" {
		isSvc, typ = 1.0, 2.0
	}

	return []interface{}{float64(id), host, svc, author, text, float64(1700000000 + id), 1.0, typ, isSvc, 1.0, 0.0, 0.0, 0.0}
}

func c14DowntimeRow(id int64, host, svc, author, text string) []interface{} {
	isSvc, typ := 0.0, 2.0
	if svc != "" {
		isSvc, typ = 1.0, 1.0
	}

	return []interface{}{float64(id), host, svc, author, text, float64(1700000000 + id), float64(1700000100 + id), float64(1700009000 + id), 8900.0, 1.0, 0.0, typ, isSvc}
}

// attach records an entry of the backend (before it is added there)
func (cp *c14Peer) attach(which int, id int64, host, svc, author, text string, permanent bool) {
	key := c14CDKey(host, svc)
	cp.cdMu.Lock()
	defer cp.cdMu.Unlock()
	if cp.cdMay[which][key] == nil {
		cp.cdMay[which][key] = map[int64]bool{}
	}
	cp.cdMay[which][key][id] = true
	if permanent {
		if cp.cdMust[which][key] == nil {
			cp.cdMust[which][key] = map[int64]bool{}
		}
		cp.cdMust[which][key][id] = true
	}
	cp.cdText[which][id] = [2]string{author, text}
}

func c14SortedIDs(set map[int64]bool) []int64 {
	ids := make([]int64, 0, len(set))
	for id := range set {
		ids = append(ids, id)
	}
	sort.Slice(ids, func(i, j int) bool { return ids[i] < ids[j] })

	return ids
}

type c14World struct {
	sc       *c14Scenario
	lmd      *Daemon
	peers    []*c14Peer
	listen   string
	deadline time.Time
	ctx      context.Context

	mu         sync.Mutex
	res        *c14Result
	vecSeen    map[string]bool
	vecBad     [][]int64
	vecGood    [][]int64
	setSeen    map[string]bool
	setBad     [][]int64
	setGood    [][]int64
	statsSeen  map[string]bool
	sumsSeen   map[string]bool
	listSeen   map[string]bool
	listBad    [][][]int64
	listGood   [][][]int64
	waitSeen   map[string]bool
	waitBad    [][]int64
	waitGood   [][]int64
	partialRun bool // a scenario with single-row updaters (WaitTrigger clients, timeperiod flips): epochs may differ inside a table
}

func (w *c14World) count(key string) {
	w.mu.Lock()
	w.res.Hist[key]++
	w.mu.Unlock()
}

func c14Key(vec []int64) string {
	parts := make([]string, len(vec))
	for i, v := range vec {
		parts[i] = strconv.FormatInt(v, 10)
	}

	return strings.Join(parts, ",")
}

func (w *c14World) addVec(kind string, vec []int64, raw []interface{}) {
	w.mu.Lock()
	defer w.mu.Unlock()
	w.res.VecTotal++
	key := c14Key(vec)
	if w.vecSeen[key] {
		return
	}
	w.vecSeen[key] = true
	if c14Uniform(vec) {
		w.vecGood = append(w.vecGood, vec)

		return
	}
	w.vecBad = append(w.vecBad, vec)
	if len(w.res.Torn) < 5 {
		w.res.Torn = append(w.res.Torn, map[string]any{"kind": kind, "row": raw, "decoded": vec})
	}
}

func (w *c14World) addSet(tag int64, set map[int64]bool, what string) {
	vals := make([]int64, 0, len(set)+1)
	for v := range set {
		vals = append(vals, v)
	}
	sort.Slice(vals, func(i, j int) bool { return vals[i] < vals[j] })
	key := fmt.Sprintf("%d:%s", tag, c14Key(vals))
	w.mu.Lock()
	defer w.mu.Unlock()
	if w.setSeen[key] {
		return
	}
	w.setSeen[key] = true
	if len(vals) <= 1 {
		w.setGood = append(w.setGood, vals)
	} else {
		w.setBad = append(w.setBad, vals)
		if len(w.res.Mixed) < 5 {
			w.res.Mixed = append(w.res.Mixed, fmt.Sprintf("tag %d (0 generation, 1 epoch) %s: %v", tag, what, vals))
		}
	}
}

func (w *c14World) malformed(format string, args ...interface{}) {
	w.mu.Lock()
	defer w.mu.Unlock()
	w.res.Hist["malformed"]++
	if len(w.res.Malformed) < 8 {
		w.res.Malformed = append(w.res.Malformed, fmt.Sprintf(format, args...))
	}
}

func (w *c14World) incomplete(format string, args ...interface{}) {
	w.mu.Lock()
	defer w.mu.Unlock()
	w.res.Hist["incomplete"]++
	if len(w.res.Incomplete) < 8 {
		w.res.Incomplete = append(w.res.Incomplete, fmt.Sprintf(format, args...))
	}
}

// ---- backend dataset -------------------------------------------------------------------------------

func c14SetRow(backend *vBackend, table string, tab *vTable, row int, ver, epoch int64) {
	for _, col := range c14StampCols {
		tab.Rows[row][backend.ensureCol(table, tab, col.name)] = c14Encode(col.kind, ver)
	}
	if epoch >= 0 {
		tab.Rows[row][backend.ensureCol(table, tab, c14EpochCol)] = float64(epoch)
	}
}

func c14SetGen(backend *vBackend, gen int64) {
	hosts := backend.Table("hosts")
	idx := backend.ensureCol("hosts", hosts, "alias")
	for i := range hosts.Rows {
		hosts.Rows[i][idx] = fmt.Sprintf("g%d", gen)
	}
	svcs := backend.Table("services")
	idx = backend.ensureCol("services", svcs, "display_name")
	for i := range svcs.Rows {
		svcs.Rows[i][idx] = fmt.Sprintf("g%d", gen)
	}
}

func c14SetGroup(backend *vBackend, ver int64) {
	tab := backend.Table("hostgroups")
	for _, col := range c14GroupCols {
		idx := backend.ensureCol("hostgroups", tab, col)
		for i := range tab.Rows {
			tab.Rows[i][idx] = float64(ver)
		}
	}
}

func (w *c14World) newPeer(num int, rnd *vRand) *c14Peer {
	cp := &c14Peer{id: fmt.Sprintf("p%d", num), nHosts: w.sc.Hosts, nSvcs: w.sc.Services, nextID: 10}
	cp.backend = newVBackend(fmt.Sprintf("c14-%d", num))
	dataset := vDefaultDataset(rnd, cp.nHosts, cp.nSvcs)
	cp.nSvcs = len(dataset["services"].Rows)
	for _, row := range dataset["services"].Rows {
		cp.svcKeys = append(cp.svcKeys, [2]string{row[0].(string), row[1].(string)})
	}
	// comments and downtimes attached to hosts and services from the start (never removed): the first host and the
	// first service always have both, the others some
	for which := range 2 {
		cp.cdMust[which], cp.cdMay[which], cp.cdText[which] = map[string]map[int64]bool{}, map[string]map[int64]bool{}, map[int64][2]string{}
	}
	comments, downtimes := dataset["comments"], dataset["downtimes"]
	comments.Rows, downtimes.Rows = nil, nil
	next := int64(0)
	add := func(which int, host, svc string) {
		next++
		author, text := "c14", fmt.Sprintf("entry %d", next)
		cp.attach(which, next, host, svc, author, text, true)
		if which == 0 {
			comments.Rows = append(comments.Rows, c14CommentRow(next, host, svc, author, text))
		} else {
			downtimes.Rows = append(downtimes.Rows, c14DowntimeRow(next, host, svc, author, text))
		}
	}
	for i := 1; i <= cp.nHosts; i++ {
		for which := range 2 {
			n := rnd.intn(3)
			if i == 1 && n == 0 {
				n = 1
			}
			for ; n > 0; n-- {
				add(which, fmt.Sprintf("vhost%d", i), "")
			}
		}
	}
	for i, key := range cp.svcKeys {
		for which := range 2 {
			n := rnd.intn(3) - 1
			if i == 0 && n <= 0 {
				n = 1
			}
			for ; n > 0; n-- {
				add(which, key[0], key[1])
			}
		}
	}
	cp.backend.SetDataset(dataset)
	cp.hver = make([]atomic.Int64, cp.nHosts)
	cp.sver = make([]atomic.Int64, cp.nSvcs)
	cp.backend.WithLock(func() {
		for _, name := range []string{"hosts", "services"} {
			tab := cp.backend.Table(name)
			idx := cp.backend.ensureCol(name, tab, "custom_variable_names")
			for i := range tab.Rows {
				tab.Rows[i][idx] = []interface{}{"VER", "K"}
				c14SetRow(cp.backend, name, tab, i, 1, 0)
			}
		}
		c14SetGen(cp.backend, 1)
		c14SetGroup(cp.backend, 1)
	})
	for i := range cp.hver {
		cp.hver[i].Store(1)
	}
	for i := range cp.sver {
		cp.sver[i].Store(1)
	}
	cp.gver.Store(1)
	cp.gen.Store(1)
	cp.nextID = 1000
	cp.peer = vNewPeer(w.lmd, cp.id, []string{cp.backend.Addr()}, nil)

	return cp
}

// ---- backend mutations (one goroutine per peer) -------------------------------------------------------

func (w *c14World) mutator(cp *c14Peer, rnd *vRand, wg *sync.WaitGroup) {
	defer wg.Done()
	menu := w.sc.Mutators
	if len(menu) == 0 {
		return
	}
	for time.Now().Before(w.deadline) {
		kind := vPick(rnd, menu)
		if w.sc.Epochs && kind == "timeperiod" {
			kind = "row"
		}
		if w.sc.StaticCD && (kind == "comment" || kind == "downtime") {
			kind = "row"
		}
		switch kind {
		case "row":
			table, vers := "hosts", cp.hver
			if rnd.chance(1, 2) {
				table, vers = "services", cp.sver
			}
			if len(vers) == 0 {
				continue
			}
			row := rnd.intn(len(vers))
			cp.backend.WithLock(func() {
				ver := vers[row].Load() + 1
				c14SetRow(cp.backend, table, cp.backend.Table(table), row, ver, -1)
				vers[row].Store(ver)
			})
		case "epoch":
			cp.backend.WithLock(func() {
				epoch := cp.epoch.Load() + 1
				for i := range cp.hver {
					ver := cp.hver[i].Load() + 1
					c14SetRow(cp.backend, "hosts", cp.backend.Table("hosts"), i, ver, epoch)
					cp.hver[i].Store(ver)
				}
				for i := range cp.sver {
					ver := cp.sver[i].Load() + 1
					c14SetRow(cp.backend, "services", cp.backend.Table("services"), i, ver, epoch)
					cp.sver[i].Store(ver)
				}
				cp.epoch.Store(epoch)
			})
		case "comment", "downtime":
			table, ids, which := "comments", &cp.comIDs, 0
			if kind == "downtime" {
				table, ids, which = "downtimes", &cp.downIDs, 1
			}
			if len(*ids) > 0 && (len(*ids) > 6 || rnd.chance(1, 2)) {
				pos := rnd.intn(len(*ids))
				cp.backend.RemoveRow(table, []string{strconv.FormatInt((*ids)[pos], 10)})
				*ids = append((*ids)[:pos:pos], (*ids)[pos+1:]...)
			} else {
				cp.nextID++
				host := fmt.Sprintf("vhost%d", 1+rnd.intn(cp.nHosts))
				svc := ""
				if cp.nSvcs > 0 && rnd.chance(1, 2) {
					key := vPick(rnd, cp.svcKeys)
					host, svc = key[0], key[1]
				}
				isSvc := 0.0
				if svc != "" {
					isSvc = 1.0
				}
				vals := map[string]interface{}{"id": float64(cp.nextID), "host_name": host, "service_description": svc, "author": "c14",
					"comment": fmt.Sprintf("entry %d", cp.nextID), "entry_time": float64(1700000000 + cp.nextID), "is_service": isSvc}
				cp.attach(which, cp.nextID, host, svc, "c14", fmt.Sprintf("entry %d", cp.nextID), false)
				cp.backend.AddRow(table, vals)
				*ids = append(*ids, cp.nextID)
			}
		case "timeperiod":
			cp.backend.SetCell("timeperiods", []string{"workhours"}, "in", float64(rnd.intn(2)))
		case "group":
			cp.backend.WithLock(func() {
				ver := cp.gver.Load() + 1
				c14SetGroup(cp.backend, ver)
				cp.gver.Store(ver)
			})
		}
		w.count("mutation:" + kind)
		time.Sleep(time.Duration(100+rnd.intn(900)) * time.Microsecond)
	}
}

// ---- the update loop (one goroutine per peer) -----------------------------------------------------------

func (w *c14World) updater(cp *c14Peer, rnd *vRand, wg *sync.WaitGroup) {
	defer wg.Done()
	peer := cp.peer
	ctx := w.ctx
	menu := w.sc.Updaters
	if len(menu) == 0 {
		menu = []string{"delta"}
	}
	periodic := func() {
		if w.sc.Epochs {
			// whole-table updates only: a delta with a time window (and the full scan's catch-up of single
			// timestamps) legitimately updates a subset of the rows
			peer.forceFull.Store(true)
		}
		peer.lastUpdate.Set(currentUnixTime() - float64(w.lmd.Config.UpdateInterval) - 1)
		_, err := peer.periodicUpdate(ctx)
		_ = peer.initTablesIfRestartRequiredError(ctx, err)
	}
	for time.Now().Before(w.deadline) {
		kind := vPick(rnd, menu)
		data := peer.data.Load()
		switch kind {
		case "delta":
			if data != nil {
				err := data.UpdateDelta(ctx, 0, currentUnixTime())
				_ = peer.initTablesIfRestartRequiredError(ctx, err)
			} else {
				periodic()
			}
		case "periodic":
			peer.forceFull.Store(true)
			periodic()
		case "minute":
			peer.lastTimeperiodUpdateMinute.Store((int32(time.Now().Minute()) + 7) % 60)
			peer.forceFull.Store(true)
			periodic()
		case "full":
			peer.lastFullUpdate.Set(currentUnixTime() - float64(w.lmd.Config.FullUpdateInterval) - 10)
			periodic()
		case "scan":
			peer.ScheduleImmediateUpdate()
			peer.forceFull.Store(true)
			periodic()
		case "rebuild":
			cp.backend.WithLock(func() {
				gen := cp.gen.Load() + 1
				c14SetGen(cp.backend, gen)
				cp.gen.Store(gen)
			})
			_ = peer.InitAllTables(ctx)
		case "restart":
			// the core behind the backend restarted: the next update finds another program_start and reloads everything
			cp.backend.WithLock(func() {
				tab := cp.backend.Table("status")
				idx := tab.colIndex("program_start")
				start, _ := tab.Rows[0][idx].(float64)
				tab.Rows[0][idx] = start + 1
			})
			periodic()
		case "comments":
			if data != nil {
				_ = data.updateDeltaCommentsOrDowntimes(ctx, TableComments)
				_ = data.updateDeltaCommentsOrDowntimes(ctx, TableDowntimes)
			}
		case "downup":
			cp.disturb.Add(1)
			cp.backend.SetMode(vModeRefuse)
			if last := peer.lastOnline.Get(); last > 0 && (w.sc.Epochs || rnd.chance(2, 3)) {
				peer.lastOnline.Set(last - float64(w.lmd.Config.StaleBackendTimeout) - 100)
			}
			periodic()
			time.Sleep(time.Duration(rnd.intn(20)) * time.Millisecond)
			cp.backend.SetMode(vModeOK)
			periodic()
			cp.disturb.Add(1)
		case "broken":
			cp.disturb.Add(1)
			peer.setBroken("c14: scripted")
			time.Sleep(time.Duration(rnd.intn(10)) * time.Millisecond)
			peer.lastFullUpdate.Set(currentUnixTime() - float64(BrokenPeerGraceTimeSeconds) - 10)
			periodic()
			cp.disturb.Add(1)
		case "idle":
			// the next client query spins the peer up from its own goroutine (ResumeFromIdle)
			peer.idling.Store(true)
			time.Sleep(time.Duration(rnd.intn(10)) * time.Millisecond)
		}
		w.count("update:" + kind)
		time.Sleep(time.Duration(rnd.intn(1500)) * time.Microsecond)
	}
	// leave the peer in a usable state for the final sanity query
	cp.backend.SetMode(vModeOK)
	peer.idling.Store(false)
}

// ---- clients ---------------------------------------------------------------------------------------------

// c14Probe is a request whose column reads a stored table the request does not lock (see c14_gen.go).
type c14Probe struct {
	Table    string   `json:"table"`
	Column   string   `json:"column"`
	Usage    string   `json:"usage"`
	Request  string   `json:"request"`
	Locked   []string `json:"locked"`
	Unlocked []string `json:"unlocked"` // read, but not locked
}

func c14ProbeKind(kind string) (int, bool) {
	if !strings.HasPrefix(kind, "probe") {
		return 0, false
	}
	num, err := strconv.Atoi(kind[len("probe"):])

	return num, err == nil && num >= 0
}

type c14Query struct {
	kind    string
	text    string
	variant int
	width   int
	// WaitTrigger requests that really wait (waitreal*): the object waited for ("p1/h/vhost2", "p1/s/vhost1/vsvc1"), the
	// version its WaitCondition `current_attempt >= threshold` asks for, and what the answer showed for it
	waitKey   string
	threshold int64
	waitSeen  int64
	bound  int64 // hostsfilter: Filter: latency < bound
	single bool  // Backends header with exactly one backend
}

const c14Tail = "OutputFormat: wrapped_json\nResponseHeader: fixed16\n\n"

func (w *c14World) buildQuery(kind string, rnd *vRand) *c14Query {
	query := &c14Query{kind: kind}
	backends := ""
	if rnd.chance(1, 3) {
		cp := vPick(rnd, w.peers)
		backends = "Backends: " + cp.id + "\n"
		query.single = true
	}
	cp := vPick(rnd, w.peers)
	host := fmt.Sprintf("vhost%d", 1+rnd.intn(cp.nHosts))
	stamps := c14StampColumnNames("")
	hstamps := c14StampColumnNames("host_")
	nst := len(c14StampCols)
	timeout := 20 + rnd.intn(400)
	wait := func(obj, cond string) string {
		txt := "WaitTrigger: all\n"
		if obj != "" {
			txt += "WaitObject: " + obj + "\n"
		}

		return txt + "WaitCondition: " + cond + "\n" + fmt.Sprintf("WaitTimeout: %d\n", timeout)
	}
	switch kind {
	case "hosts":
		query.text = "GET hosts\nColumns: peer_key name alias " + c14EpochCol + " " + stamps + "\n" + backends + c14Tail
		query.width = 4 + nst
	case "hostsfilter":
		query.bound = cp.hver[rnd.intn(cp.nHosts)].Load() + int64(rnd.intn(3))
		query.text = fmt.Sprintf("GET hosts\nColumns: peer_key name alias %s %s\nFilter: latency < %d\nFilter: state >= 0\n%s%s",
			c14EpochCol, stamps, query.bound, backends, c14Tail)
		query.width = 4 + nst
	case "services":
		query.text = "GET services\nColumns: peer_key host_name description display_name host_alias " + c14EpochCol + " host_" + c14EpochCol +
			" " + stamps + " " + hstamps + "\n" + backends + c14Tail
		query.width = 7 + 2*nst
	case "stats":
		query.text = "GET services\nStats: state = 0\nStats: state = 1\nStats: state = 2\nStats: state = 3\nStats: state >= 0\n" + backends + c14Tail
		query.width = 5
	case "statsref":
		// counters and sums over columns of the referenced host: what a tactical overview asks for
		query.text = "GET services\nStats: host_state >= 0\nStats: sum host_current_attempt\nStats: sum host_next_check\nStats: sum host_latency\n" + backends + c14Tail
		query.width = 4
	case "filterref":
		query.text = "GET services\nColumns: peer_key host_name description\nFilter: host_latency >= 0\nFilter: host_plugin_output ~ v=\n" + backends + c14Tail
		query.width = 3
	case "sortref":
		query.text = "GET services\nColumns: peer_key host_name description\nSort: host_latency desc\nSort: host_plugin_output asc\n" + backends + c14Tail
		query.width = 3
	case "sums":
		query.text = "GET services\nStats: sum current_attempt\nStats: sum next_check\nStats: sum latency\nStats: sum execution_time\n" + backends + c14Tail
		query.width = 4
	case "hostsbygroup":
		query.text = "GET hostsbygroup\nColumns: peer_key name hostgroup_name alias " + c14EpochCol + " " + stamps + "\n" + backends + c14Tail
		query.width = 5 + nst
	case "servicesbygroup", "servicesbyhostgroup":
		group := "servicegroup_name"
		if kind == "servicesbyhostgroup" {
			group = "hostgroup_name"
		}
		query.text = "GET " + kind + "\nColumns: peer_key host_name description " + group + " display_name host_alias " + c14EpochCol + " host_" + c14EpochCol +
			" " + stamps + " " + hstamps + "\n" + backends + c14Tail
		query.width = 8 + 2*nst
	case "waithost", "waitrealhost": // (waitreal*: only for the lock order; the requests are built by waitReal)
		query.text = "GET hosts\nColumns: peer_key name alias " + c14EpochCol + " " + stamps + "\n" + backends + wait(host, "current_attempt > 900000000") + c14Tail
		query.width = 4 + nst
	case "waitmet":
		query.text = "GET hosts\nColumns: peer_key name alias " + c14EpochCol + " " + stamps + "\n" + backends + wait(host, "state >= 0") + c14Tail
		query.width = 4 + nst
	case "waittable":
		query.text = "GET hosts\nColumns: peer_key name alias " + c14EpochCol + " " + stamps + "\n" + backends + wait("", "state = 5") + c14Tail
		query.width = 4 + nst
	case "waitservice", "waitrealsvc":
		query.text = "GET services\nColumns: peer_key host_name description display_name host_alias " + c14EpochCol + " host_" + c14EpochCol +
			" " + stamps + " " + hstamps + "\n" + backends + wait("vhost1;vsvc1", "current_attempt > 900000000") + c14Tail
		query.width = 7 + 2*nst
	case "waitgroups":
		table := vPick(rnd, []string{"hostgroups", "timeperiods"})
		query.text = "GET " + table + "\nColumns: peer_key name\n" + backends + wait("", "name = nosuchname") + c14Tail
		query.width = 2
	case "virtcols":
		query.text = "GET hosts\nColumns: peer_key name comments comments_with_info downtimes downtimes_with_info services_with_info services_with_state custom_variables\n" +
			backends + c14Tail
		query.width = 9
	case "svclists":
		query.text = "GET services\nColumns: peer_key host_name description comments comments_with_info downtimes downtimes_with_info " +
			"host_comments host_comments_with_info host_downtimes host_downtimes_with_info\n" + backends + c14Tail
		query.width = 11
	case "comlists", "downlists":
		table := "comments"
		if kind == "downlists" {
			table = "downtimes"
		}
		query.text = "GET " + table + "\nColumns: peer_key host_name service_description host_comments host_comments_with_info host_downtimes " +
			"host_downtimes_with_info service_comments service_comments_with_info service_downtimes service_downtimes_with_info id\n" + backends + c14Tail
		query.width = 12
	case "bygrouplists":
		if rnd.chance(1, 2) {
			query.variant = 1
			query.text = "GET hostsbygroup\nColumns: peer_key name hostgroup_name comments comments_with_info downtimes downtimes_with_info\n" + backends + c14Tail
			query.width = 7
		} else {
			table := vPick(rnd, []string{"servicesbyhostgroup", "servicesbygroup"})
			query.text = "GET " + table + "\nColumns: peer_key host_name description comments comments_with_info downtimes downtimes_with_info " +
				"host_comments host_comments_with_info host_downtimes host_downtimes_with_info\n" + backends + c14Tail
			query.width = 11
		}
	case "comments", "downtimes":
		query.text = "GET " + kind + "\nColumns: peer_key id host_name host_alias host_" + c14EpochCol + " " + hstamps + "\n" + backends + c14Tail
		query.width = 5 + nst
	case "hostgroups":
		query.text = "GET hostgroups\nColumns: peer_key name members_with_state " + strings.Join(c14GroupCols, " ") + "\n" + backends + c14Tail
		query.width = 3 + len(c14GroupCols)
	case "servicegroups":
		query.text = "GET servicegroups\nColumns: peer_key name members_with_state num_services\n" + backends + c14Tail
		query.width = 4
	case "timeperiods":
		query.text = "GET timeperiods\nColumns: peer_key name in alias\n" + backends + c14Tail
		query.width = 4
	case "sites":
		query.text = "GET sites\nColumns: peer_key status last_error idling last_update\n" + backends + c14Tail
		query.width = 5
	case "status":
		query.text = "GET status\nColumns: peer_key program_start nagios_pid\n" + backends + c14Tail
		query.width = 3
	default:
		if num, ok := c14ProbeKind(kind); ok && w.sc != nil && num < len(w.sc.Probes) {
			// a request of the lock coverage report: only its shape is checked, the race detector does the rest
			query.text = strings.TrimRight(w.sc.Probes[num].Request, "\n") + "\n" + backends + c14Tail
			query.width = -1

			break
		}
		panic("c14: unknown client kind " + kind)
	}

	return query
}

type c14Answer struct {
	Data   [][]interface{}   `json:"data"`
	Failed map[string]string `json:"failed"`
}

// roundTrip sends one request over a new connection and reads the fixed16 framed answer.
func (w *c14World) roundTrip(text string) (code int, body []byte, err error) {
	conn, err := net.DialTimeout("unix", w.listen, 5*time.Second)
	if err != nil {
		return 0, nil, fmt.Errorf("dial: %w", err)
	}
	defer conn.Close()
	_ = conn.SetDeadline(time.Now().Add(20 * time.Second))
	if _, err = io.WriteString(conn, text); err != nil {
		return 0, nil, fmt.Errorf("write: %w", err)
	}
	rd := bufio.NewReader(conn)
	header := make([]byte, 16)
	if _, err = io.ReadFull(rd, header); err != nil {
		return 0, nil, fmt.Errorf("header: %w", err)
	}
	if header[15] != '\n' || header[3] != ' ' {
		return 0, nil, fmt.Errorf("bad header %q", header)
	}
	code, err = strconv.Atoi(string(header[:3]))
	if err != nil {
		return 0, nil, fmt.Errorf("bad header %q", header)
	}
	size, err := strconv.Atoi(strings.TrimSpace(string(header[4:15])))
	if err != nil || size < 0 {
		return 0, nil, fmt.Errorf("bad header %q", header)
	}
	body = make([]byte, size)
	if _, err = io.ReadFull(rd, body); err != nil {
		return code, nil, fmt.Errorf("body: %w", err)
	}
	if rest, _ := io.ReadAll(rd); len(rest) != 0 {
		return code, body, fmt.Errorf("%d bytes after the announced body", len(rest))
	}

	return code, body, nil
}

func (w *c14World) peerByID(id string) *c14Peer {
	for _, cp := range w.peers {
		if cp.id == id {
			return cp
		}
	}

	return nil
}

func c14RowIndex(name string, prefix string) int {
	n, err := strconv.Atoi(strings.TrimPrefix(name, prefix))
	if err != nil {
		return -1
	}

	return n - 1
}

func c14GenOf(val interface{}) (int64, bool) {
	txt, ok := val.(string)
	if !ok || !strings.HasPrefix(txt, "g") {
		return 0, false
	}

	return c14Atoi(txt[1:])
}

type c14Seen struct {
	last map[string]int64 // per client: last version seen per row
}

func (w *c14World) checkVersion(seen *c14Seen, key string, ver, limit int64) {
	if ver > limit {
		w.mu.Lock()
		if len(w.res.Future) < 8 {
			w.res.Future = append(w.res.Future, []int64{ver, limit})
		}
		w.mu.Unlock()
	}
	if prev, ok := seen.last[key]; ok && ver < prev {
		w.mu.Lock()
		w.res.Backwards++
		w.mu.Unlock()
	}
	seen.last[key] = ver
}

// expectedRows is the number of rows a peer that is not listed as failed contributes to an unfiltered query.
func (w *c14World) expectedRows(cp *c14Peer, kind string) int {
	switch kind {
	case "hosts", "hostsbygroup", "virtcols", "waithost", "waittable", "waitmet", "waitrealhost":
		return cp.nHosts
	case "services", "servicesbygroup", "servicesbyhostgroup", "waitservice", "filterref", "sortref", "svclists", "waitrealsvc":
		return cp.nSvcs
	case "hostgroups", "servicegroups":
		return 1
	case "timeperiods":
		return 2
	case "sites", "status":
		return 1
	}

	return -1
}

// c14ListIDs decodes a served id list (`comments`: numbers) or list with info (`comments_with_info`: [id, author,
// comment, ...]); details of an entry are compared with the backend's (they never change).
func (w *c14World) listIDs(cp *c14Peer, which int, val interface{}, withInfo bool, what string) ([]int64, bool) {
	list, ok := val.([]interface{})
	if !ok {
		w.malformed("%s: not a list: %v", what, val)

		return nil, false
	}
	set := map[int64]bool{}
	for _, entry := range list {
		cell := entry
		var cells []interface{}
		if withInfo {
			cells, ok = entry.([]interface{})
			if !ok || len(cells) < 3 {
				w.malformed("%s: entry %v", what, entry)

				return nil, false
			}
			cell = cells[0]
		}
		id, ok := c14Num(cell)
		if !ok || set[id] {
			w.malformed("%s: id %v (not a number or listed twice) in %v", what, cell, val)

			return nil, false
		}
		set[id] = true
		if withInfo {
			cp.cdMu.Lock()
			text, known := cp.cdText[which][id]
			cp.cdMu.Unlock()
			if known && (cells[1] != text[0] || cells[2] != text[1]) {
				w.malformed("%s: entry %v, the backend has author %q comment %q", what, entry, text[0], text[1])
			}
		}
	}

	return c14SortedIDs(set), true
}

// checkLists: cols = comments, comments_with_info, downtimes, downtimes_with_info of the host / service `key`.
func (w *c14World) checkLists(cp *c14Peer, kind, key string, cols []interface{}) {
	for pos, val := range cols {
		which, withInfo := pos/2, pos%2 == 1
		what := fmt.Sprintf("%s %s/%s column %d", kind, cp.id, key, pos)
		served, ok := w.listIDs(cp, which, val, withInfo, what)
		if !ok {
			continue
		}
		cp.cdMu.Lock()
		must, may := c14SortedIDs(cp.cdMust[which][key]), c14SortedIDs(cp.cdMay[which][key])
		cp.cdMu.Unlock()
		w.addListObs(served, must, may, what)
	}
}

func c14SubsetIDs(a, b []int64) bool {
	set := map[int64]bool{}
	for _, v := range b {
		set[v] = true
	}
	for _, v := range a {
		if !set[v] {
			return false
		}
	}

	return true
}

func (w *c14World) addListObs(served, must, may []int64, what string) {
	w.mu.Lock()
	defer w.mu.Unlock()
	w.res.ListTotal++
	key := c14Key(served) + "|" + c14Key(must) + "|" + c14Key(may)
	if w.listSeen[key] {
		return
	}
	w.listSeen[key] = true
	obs := [][]int64{served, must, may}
	if c14SubsetIDs(must, served) && c14SubsetIDs(served, may) {
		w.listGood = append(w.listGood, obs)

		return
	}
	w.listBad = append(w.listBad, obs)
	if len(w.res.ListBad) < 8 {
		w.res.ListBad = append(w.res.ListBad, fmt.Sprintf("%s: served %v, attached the whole time %v, ever attached %v", what, served, must, may))
	}
}

//nolint:gocyclo // one check per query kind
func (w *c14World) checkAnswer(query *c14Query, code int, body []byte, seen *c14Seen) {
	kind := query.kind
	if code != 200 {
		// all selected backends down: "502" with an error text is the documented answer
		if code == 502 {
			w.count("answer:502")

			return
		}
		w.malformed("%s: code %d: %.200s", kind, code, body)

		return
	}
	var ans c14Answer
	if err := json.Unmarshal(body, &ans); err != nil || ans.Data == nil || ans.Failed == nil {
		w.malformed("%s: not the documented wrapped_json shape: %v: %.200s", kind, err, body)

		return
	}
	nst := len(c14StampCols)
	perPeer := map[string]int{}
	gens := map[string]map[int64]bool{}
	epochs := map[string]map[int64]bool{}
	addTo := func(m map[string]map[int64]bool, key string, val int64) {
		if m[key] == nil {
			m[key] = map[int64]bool{}
		}
		m[key][val] = true
	}
	for _, row := range ans.Data {
		if query.width >= 0 && len(row) != query.width {
			w.malformed("%s: row of width %d instead of %d", kind, len(row), query.width)

			return
		}
	}
	if _, isProbe := c14ProbeKind(kind); isProbe {
		w.mu.Lock()
		w.res.Responses++
		w.mu.Unlock()

		return
	}
	switch kind {
	case "stats", "sums", "statsref":
		if len(ans.Data) != 1 {
			w.malformed("%s: %d rows", kind, len(ans.Data))

			return
		}
		vals := make([]int64, 0, 6)
		for _, cell := range ans.Data[0] {
			num, ok := c14Num(cell)
			if !ok {
				w.malformed("%s: %v", kind, ans.Data[0])

				return
			}
			vals = append(vals, num)
		}
		if kind == "stats" {
			// expected total: services of all selected peers that did not fail
			expected := int64(0)
			for _, cp := range w.peers {
				if _, failed := ans.Failed[cp.id]; !failed && (!query.single || strings.Contains(query.text, "Backends: "+cp.id+"\n")) {
					expected += int64(cp.nSvcs)
				}
			}
			vals = append(vals, expected)
		}
		key := c14Key(vals)
		w.mu.Lock()
		if kind == "stats" && !w.statsSeen[key] {
			w.statsSeen[key] = true
			w.res.Stats = append(w.res.Stats, vals)
		}
		if kind == "sums" && !w.sumsSeen[key] {
			w.sumsSeen[key] = true
			w.res.Sums = append(w.res.Sums, vals)
		}
		if kind == "statsref" && !w.sumsSeen["r"+key] {
			// the three sums range over the same host rows (one per service): equal when the hosts do not change meanwhile
			w.sumsSeen["r"+key] = true
			w.res.Sums = append(w.res.Sums, vals[1:])
		}
		w.res.Responses++
		w.mu.Unlock()

		return
	}
	for _, row := range ans.Data {
		pid, _ := row[0].(string)
		cp := w.peerByID(pid)
		if cp == nil {
			w.malformed("%s: unknown peer_key %v", kind, row[0])

			return
		}
		perPeer[pid]++
		switch kind {
		case "hosts", "hostsfilter", "hostsbygroup", "waithost", "waittable", "waitmet", "waitrealhost":
			off := 2
			if kind == "hostsbygroup" {
				off = 3
			}
			name, _ := row[1].(string)
			idx := c14RowIndex(name, "vhost")
			gen, gok := c14GenOf(row[off])
			epoch, eok := c14Num(row[off+1])
			vec, vok := c14StampVector(row[off+2 : off+2+nst])
			if idx < 0 || idx >= cp.nHosts || !gok || !eok || !vok {
				w.malformed("%s: undecodable row %v", kind, row)

				return
			}
			addTo(gens, pid+"/h", gen)
			addTo(epochs, pid+"/h", epoch)
			w.addVec(kind, vec, row)
			w.checkVersion(seen, pid+"/h/"+name, vec[0], cp.hver[idx].Load())
			if query.waitKey == pid+"/h/"+name {
				query.waitSeen = vec[2]
			}
			if kind == "hostsfilter" && vec[4] >= query.bound {
				w.mu.Lock()
				if len(w.res.FilterViol) < 8 {
					w.res.FilterViol = append(w.res.FilterViol, []int64{vec[4], query.bound})
				}
				w.mu.Unlock()
			}
		case "services", "servicesbygroup", "servicesbyhostgroup", "waitservice", "waitrealsvc":
			off := 3
			if kind != "services" && kind != "waitservice" && kind != "waitrealsvc" {
				off = 4
			}
			host, _ := row[1].(string)
			desc, _ := row[2].(string)
			gen, gok := c14GenOf(row[off])
			hgen, hgok := c14GenOf(row[off+1])
			epoch, eok := c14Num(row[off+2])
			hepoch, heok := c14Num(row[off+3])
			vec, vok := c14StampVector(row[off+4 : off+4+nst])
			hvec, hvok := c14StampVector(row[off+4+nst : off+4+2*nst])
			hidx := c14RowIndex(host, "vhost")
			if hidx < 0 || hidx >= cp.nHosts || !gok || !hgok || !eok || !heok || !vok || !hvok {
				w.malformed("%s: undecodable row %v", kind, row)

				return
			}
			addTo(gens, pid+"/s", gen)
			addTo(gens, pid+"/s", hgen) // a service and the host it refers to belong to ONE data set
			addTo(epochs, pid+"/s", epoch)
			addTo(epochs, pid+"/h", hepoch)
			w.addVec(kind, vec, row)
			w.addVec(kind+":host", hvec, row)
			w.checkVersion(seen, pid+"/s/"+host+"/"+desc, vec[0], int64(1)<<60)
			if query.waitKey == pid+"/s/"+host+"/"+desc {
				query.waitSeen = vec[2]
			}
			w.checkVersion(seen, pid+"/h/"+host, hvec[0], cp.hver[hidx].Load())
		case "comments", "downtimes":
			hgen, hgok := c14GenOf(row[3])
			hepoch, heok := c14Num(row[4])
			hvec, hvok := c14StampVector(row[5 : 5+nst])
			if !hgok || !heok || !hvok {
				w.malformed("%s: undecodable row %v", kind, row)

				return
			}
			addTo(gens, pid+"/h", hgen)
			addTo(epochs, pid+"/h", hepoch)
			w.addVec(kind+":host", hvec, row)
		case "hostgroups":
			vec := make([]int64, 0, len(c14GroupCols))
			for i := range c14GroupCols {
				num, ok := c14Num(row[3+i])
				if !ok {
					w.malformed("%s: undecodable row %v", kind, row)

					return
				}
				vec = append(vec, num)
			}
			w.addVec(kind, vec, row)
			if _, ok := row[2].([]interface{}); !ok {
				w.malformed("%s: members_with_state %v", kind, row[2])
			}
		case "virtcols":
			// services_with_info: [description, state, has_been_checked, plugin_output] read from the services table
			list, ok := row[6].([]interface{})
			if !ok {
				w.malformed("%s: services_with_info %v", kind, row[6])

				return
			}
			for _, entry := range list {
				cells, ok := entry.([]interface{})
				if !ok || len(cells) != 4 {
					w.malformed("%s: services_with_info entry %v", kind, entry)

					return
				}
				state, sok := c14Num(cells[1])
				ver, vok := c14Decode(c14KStrV, cells[3])
				if !sok || !vok {
					w.malformed("%s: services_with_info entry %v", kind, entry)

					return
				}
				norm := ver
				if ver%4 != state {
					norm = -1 - state
				}
				w.addVec(kind+":service", []int64{ver, norm}, row)
			}
			for _, pos := range []int{2, 3, 4, 5, 7} {
				if _, ok := row[pos].([]interface{}); !ok {
					w.malformed("%s: column %d is %v", kind, pos, row[pos])
				}
			}
			name, _ := row[1].(string)
			w.checkLists(cp, kind, name, row[2:6])
		case "svclists":
			host, _ := row[1].(string)
			desc, _ := row[2].(string)
			w.checkLists(cp, kind, c14CDKey(host, desc), row[3:7])
			w.checkLists(cp, kind+":host", host, row[7:11])
		case "comlists", "downlists":
			host, _ := row[1].(string)
			desc, _ := row[2].(string)
			w.checkLists(cp, kind+":host", host, row[3:7])
			if desc != "" {
				w.checkLists(cp, kind+":service", c14CDKey(host, desc), row[7:11])
			}
		case "bygrouplists":
			if query.variant == 1 {
				name, _ := row[1].(string)
				w.checkLists(cp, kind+":hostsbygroup", name, row[3:7])
			} else {
				host, _ := row[1].(string)
				desc, _ := row[2].(string)
				w.checkLists(cp, kind, c14CDKey(host, desc), row[3:7])
				w.checkLists(cp, kind+":host", host, row[7:11])
			}
		}
	}
	// a backend either failed (and contributes nothing) or contributes its complete table
	if exp := w.expectedRows(w.peers[0], kind); exp >= 0 {
		for _, cp := range w.peers {
			exp = w.expectedRows(cp, kind)
			selected := !query.single || strings.Contains(query.text, "Backends: "+cp.id+"\n")
			_, failed := ans.Failed[cp.id]
			got := perPeer[cp.id]
			switch {
			case !selected || failed:
				if got != 0 {
					w.incomplete("%s: %d rows of backend %s which is not selected or listed as failed", kind, got, cp.id)
				}
			case got != exp && !(got == 0 && (kind == "sites" || kind == "status")):
				w.incomplete("%s: %d of %d rows of backend %s (not listed as failed)", kind, got, exp, cp.id)
			}
		}
	}
	for key, set := range gens {
		w.addSet(0, set, kind+" "+key)
	}
	if w.sc.Epochs && !w.partialRun {
		for key, set := range epochs {
			w.addSet(1, set, kind+" "+key+fmt.Sprintf(" %.1500s", body))
		}
	}
	w.mu.Lock()
	w.res.Responses++
	w.res.Rows += len(ans.Data)
	w.mu.Unlock()
}

const (
	c14WaitTimeoutMs = 1800
	c14WaitMarginMs  = 300
)

// waitReal: "send a command, wait for its effect, show the object". Two identical WaitTrigger requests for ONE
// object of one backend are sent at the same moment (their WaitCondition goroutines then refresh the object from
// the backend in step, every 200 ms, concurrently with each other and with the update loop), the condition
// `current_attempt >= threshold` is far away; after one or two refresh rounds (plus a few ms) this goroutine gives the
// object a new check result with version = threshold in the backend. Each answer goes through the usual checks
// (whole rows!) and is recorded with its duration: one that arrives before the timeout must show the object with a
// version >= threshold. Waits during which the update loop made the backend fail are not recorded (lmd ends such a
// wait with the error).
func (w *c14World) waitReal(kind string, rnd *vRand, seen *c14Seen) {
	cp := vPick(rnd, w.peers)
	table, vers, idx := "hosts", cp.hver, rnd.intn(cp.nHosts)
	object, key := fmt.Sprintf("vhost%d", idx+1), ""
	columns := "peer_key name alias " + c14EpochCol + " " + c14StampColumnNames("")
	width := 4 + len(c14StampCols)
	if kind == "waitrealsvc" {
		if len(cp.svcKeys) == 0 {
			return
		}
		table, vers, idx = "services", cp.sver, rnd.intn(len(cp.svcKeys))
		object = cp.svcKeys[idx][0] + ";" + cp.svcKeys[idx][1]
		key = cp.id + "/s/" + cp.svcKeys[idx][0] + "/" + cp.svcKeys[idx][1]
		columns = "peer_key host_name description display_name host_alias " + c14EpochCol + " host_" + c14EpochCol + " " +
			c14StampColumnNames("") + " " + c14StampColumnNames("host_")
		width = 7 + 2*len(c14StampCols)
	} else {
		key = cp.id + "/h/" + object
	}
	threshold := vers[idx].Load() + 1000
	text := fmt.Sprintf("GET %s\nColumns: %s\nBackends: %s\nWaitTrigger: all\nWaitObject: %s\nWaitCondition: current_attempt >= %d\nWaitTimeout: %d\n%s",
		table, columns, cp.id, object, threshold, c14WaitTimeoutMs, c14Tail)
	disturbed := cp.disturb.Load()
	start := time.Now()
	type answer struct {
		code    int
		body    []byte
		err     error
		elapsed time.Duration
	}
	const parallel = 2
	answers := make(chan answer, parallel)
	for range parallel {
		go func() {
			code, body, err := w.roundTrip(text)
			answers <- answer{code, body, err, time.Since(start)}
		}()
	}
	// the new check result arrives around a refresh round of the waiting goroutines
	delay := time.Duration(200*(1+rnd.intn(2)))*time.Millisecond + time.Duration(rnd.intn(6000))*time.Microsecond
	time.Sleep(delay)
	cp.backend.WithLock(func() {
		ver := vers[idx].Load() + 1
		if ver < threshold {
			ver = threshold
		}
		c14SetRow(cp.backend, table, cp.backend.Table(table), idx, ver, -1)
		vers[idx].Store(ver)
	})
	w.count("mutation:waited for")
	for range parallel {
		ans := <-answers
		if ans.err != nil {
			w.malformed("%s: %s", kind, ans.err.Error())

			continue
		}
		w.count("query:" + kind)
		query := &c14Query{kind: kind, text: text, width: width, single: true, waitKey: key, threshold: threshold, waitSeen: -1}
		w.checkAnswer(query, ans.code, ans.body, seen)
		after := cp.disturb.Load()
		if ans.code != 200 || disturbed%2 == 1 || after != disturbed {
			w.count("wait: not recorded (backend made to fail meanwhile / all backends down)")

			continue
		}
		w.addWaitObs(ans.elapsed.Milliseconds(), threshold, query.waitSeen, kind+" "+key)
	}
}

func (w *c14World) addWaitObs(elapsed, threshold, served int64, what string) {
	w.mu.Lock()
	defer w.mu.Unlock()
	w.res.WaitTotal++
	early := elapsed+c14WaitMarginMs < c14WaitTimeoutMs
	switch {
	case served < 0:
		w.res.Hist["wait: backend listed as failed"]++
	case early:
		w.res.Hist["wait: answered before the timeout"]++
	default:
		w.res.Hist["wait: timed out"]++
	}
	// durations in steps of 100 ms: distinct observations, not distinct milliseconds
	obs := []int64{elapsed / 100 * 100, c14WaitTimeoutMs, c14WaitMarginMs, threshold, served}
	if !early {
		obs[0] = c14WaitTimeoutMs
	}
	key := c14Key(obs)
	if w.waitSeen[key] {
		return
	}
	w.waitSeen[key] = true
	if served < 0 || !early || served >= threshold {
		w.waitGood = append(w.waitGood, obs)

		return
	}
	w.waitBad = append(w.waitBad, obs)
	if len(w.res.WaitBad) < 8 {
		w.res.WaitBad = append(w.res.WaitBad, fmt.Sprintf("%s: answered after %d ms (WaitTimeout %d ms) with version %d, WaitCondition: current_attempt >= %d",
			what, elapsed, c14WaitTimeoutMs, served, threshold))
	}
}

func (w *c14World) client(num int, kinds []string, rnd *vRand, wg *sync.WaitGroup) {
	defer wg.Done()
	seen := &c14Seen{last: map[string]int64{}}
	for step := 0; time.Now().Before(w.deadline); step++ {
		kind := kinds[step%len(kinds)]
		if w.sc.Epochs && c14PartialKinds[kind] {
			kind = "hosts"
		}
		if kind == "waitrealhost" || kind == "waitrealsvc" {
			if time.Until(w.deadline) > 900*time.Millisecond {
				w.waitReal(kind, rnd, seen)

				continue
			}
			kind = "hosts"
		}
		query := w.buildQuery(kind, rnd)
		code, body, err := w.roundTrip(query.text)
		if err != nil {
			w.malformed("%s: %s", kind, err.Error())
			time.Sleep(5 * time.Millisecond)

			continue
		}
		w.count("query:" + kind)
		w.checkAnswer(query, code, body, seen)
	}
}

// ---- main ----------------------------------------------------------------------------------------------------

var (
	c14Deadlocks atomic.Int64
	_            = c14EarlyOpts()
)

// c14EarlyOpts configures go-deadlock (main.go enables it with -debug-deadlock) before the package's
// init functions take their first lock: its watchdog goroutines read the options without synchronisation.
func c14EarlyOpts() bool {
	if len(os.Args) < 2 || os.Args[1] != "c14worker" {
		return false
	}
	deadlock.Opts.Disable = false
	deadlock.Opts.DeadlockTimeout = 6 * time.Second
	deadlock.Opts.LogBuf = os.Stderr
	deadlock.Opts.OnPotentialDeadlock = func() {
		c14Deadlocks.Add(1)
		fmt.Fprintf(os.Stderr, "\nC14-DEADLOCK-REPORT (go-deadlock, see above)\n")
	}

	return true
}

func init() {
	verifRegister("c14worker", "C14: run one concurrency scenario (meant for the -race build of the harness)", c14WorkerMain)
}

func c14WorkerMain(args []string) int {
	fs := flag.NewFlagSet("c14worker", flag.ExitOnError)
	scenarioPath := fs.String("scenario", "", "scenario JSON")
	resultPath := fs.String("result", "", "result JSON")
	_ = fs.Parse(args)
	buf, err := os.ReadFile(*scenarioPath)
	if err != nil {
		fmt.Fprintf(os.Stderr, "c14worker: %s\n", err)

		return 2
	}
	sc := &c14Scenario{}
	if err = json.Unmarshal(buf, sc); err != nil {
		fmt.Fprintf(os.Stderr, "c14worker: %s\n", err)

		return 2
	}
	// errors and panics of lmd go to stderr (a panic in a client goroutine ends the process through logPanicExit)
	InitLogging(&Config{LogLevel: verifEnv("VERIF_LOGLEVEL", "error"), LogFile: "stderr"})

	world := &c14World{sc: sc, ctx: context.Background(), vecSeen: map[string]bool{}, setSeen: map[string]bool{},
		statsSeen: map[string]bool{}, sumsSeen: map[string]bool{}, listSeen: map[string]bool{}, waitSeen: map[string]bool{}, res: &c14Result{Hist: map[string]int{}}}
	for _, kinds := range sc.Clients {
		for _, kind := range kinds {
			if c14PartialKinds[kind] {
				world.partialRun = true
			}
		}
	}
	for _, kind := range sc.Mutators {
		if kind == "timeperiod" {
			world.partialRun = true
		}
	}
	for _, kind := range sc.Updaters {
		// the peer spun up by a client goroutine updates concurrently with the update loop
		if kind == "idle" {
			world.partialRun = true
		}
	}

	// go-deadlock (what all lmd mutexes are made of) has been configured by c14EarlyOpts

	lmd := verifNewDaemon()
	lmd.Config.MaxParallelPeerConnections = 1
	if sc.Parallel {
		lmd.Config.MaxParallelPeerConnections = 4
	}
	lmd.Config.BackendKeepAlive = sc.KeepAlive
	lmd.Config.FullUpdateInterval = 1000
	lmd.Config.StaleBackendTimeout = 30
	lmd.Config.IdleTimeout = 100000
	lmd.Config.ListenTimeout = 30
	lmd.lastMainRestart = currentUnixTime()
	world.lmd = lmd
	rnd := newVRand(sc.Seed)
	for i := 1; i <= sc.Peers; i++ {
		world.peers = append(world.peers, world.newPeer(i, rnd.fork()))
	}
	defer func() {
		for _, cp := range world.peers {
			cp.backend.Close()
		}
	}()
	for _, cp := range world.peers {
		cp.peer.lastQuery.Set(currentUnixTime())
		if err = cp.peer.InitAllTables(world.ctx); err != nil {
			fmt.Fprintf(os.Stderr, "c14worker: initial synchronisation of %s failed: %s\n", cp.id, err)

			return 2
		}
	}
	world.listen = filepath.Join(vSockDir(), fmt.Sprintf("%d-c14-lmd.sock", os.Getpid()))
	os.Remove(world.listen)
	lmd.waitGroupInit.Add(1)
	listener := NewListener(lmd, world.listen)
	lmd.waitGroupInit.Wait()

	duration := time.Duration(sc.DurationMs) * time.Millisecond
	world.deadline = time.Now().Add(duration)
	done := make(chan struct{})
	go func() {
		// watchdog: a scenario that does not come back is a hang (deadlock among goroutines or endless wait)
		select {
		case <-done:
		case <-time.After(duration + 40*time.Second):
			fmt.Fprintf(os.Stderr, "\nC14-HANG: scenario did not finish %s after its deadline\n", 40*time.Second)
			world.mu.Lock()
			world.res.Panic = "hang: scenario did not finish"
			world.mu.Unlock()
			world.writeResult(*resultPath)
			os.Exit(3)
		}
	}()

	wg := &sync.WaitGroup{}
	for _, cp := range world.peers {
		wg.Add(2)
		go world.mutator(cp, rnd.fork(), wg)
		go world.updater(cp, rnd.fork(), wg)
	}
	for i, kinds := range sc.Clients {
		if len(kinds) == 0 {
			continue
		}
		wg.Add(1)
		go world.client(i, kinds, rnd.fork(), wg)
	}
	wg.Wait()
	// let WaitCondition goroutines of timed out clients finish their last update
	time.Sleep(450 * time.Millisecond)

	// final sanity: after everything calmed down one more update and a plain query must still work
	for _, cp := range world.peers {
		cp.peer.lastUpdate.Set(currentUnixTime() - float64(lmd.Config.UpdateInterval) - 1)
		cp.peer.forceFull.Store(true)
		_, uerr := cp.peer.periodicUpdate(world.ctx)
		_ = cp.peer.initTablesIfRestartRequiredError(world.ctx, uerr)
	}
	final := &c14Query{kind: "hosts", width: 4 + len(c14StampCols),
		text: "GET hosts\nColumns: peer_key name alias " + c14EpochCol + " " + c14StampColumnNames("") + "\n" + c14Tail}
	code, body, ferr := world.roundTrip(final.text)
	if ferr != nil {
		world.malformed("final query: %s", ferr.Error())
	} else {
		world.checkAnswer(final, code, body, &c14Seen{last: map[string]int64{}})
	}
	close(done)
	listener.Stop()
	world.writeResult(*resultPath)

	return 0
}

func (w *c14World) writeResult(path string) {
	w.mu.Lock()
	defer w.mu.Unlock()
	const capVecs = 250
	res := w.res
	res.Deadlocks = int(c14Deadlocks.Load())
	res.StampVecs = append([][]int64{}, w.vecBad...)
	for _, vec := range w.vecGood {
		if len(res.StampVecs) >= capVecs {
			break
		}
		res.StampVecs = append(res.StampVecs, vec)
	}
	res.SetVecs = append([][]int64{}, w.setBad...)
	for _, vec := range w.setGood {
		if len(res.SetVecs) >= capVecs {
			break
		}
		res.SetVecs = append(res.SetVecs, vec)
	}
	res.WaitObs = append([][]int64{}, w.waitBad...)
	if len(res.WaitObs) > 60 {
		res.WaitObs = res.WaitObs[:60]
	}
	for _, obs := range w.waitGood {
		if len(res.WaitObs) >= capVecs {
			break
		}
		res.WaitObs = append(res.WaitObs, obs)
	}
	res.ListObs = append([][][]int64{}, w.listBad...)
	if len(res.ListObs) > 60 {
		res.ListObs = res.ListObs[:60]
	}
	for _, obs := range w.listGood {
		if len(res.ListObs) >= capVecs {
			break
		}
		res.ListObs = append(res.ListObs, obs)
	}
	buf, err := json.MarshalIndent(res, "", " ")
	if err != nil {
		panic(err)
	}
	if err = os.WriteFile(path, buf, 0o644); err != nil {
		panic(err)
	}
}
