//go:build verif

package lmd

// C15 stream `c15commands`: a real lmd livestatus listener (NewListener ->
// ClientConnection.Handle) on a unix socket in front of 1..3 real peers, each
// connected to a scripted backend (vbackend.go). A generated client session
// (writes made of COMMAND requests with arbitrary argument bytes, Backends
// headers, keep-alive mixes, optionally followed by a GET) is sent; the peers'
// states are forced through the peer's fields, the backends accept / reject /
// drop / refuse per connection attempt. Observed: the command log of every
// backend grouped per connection, the client visible reply tokens, the final
// status in `GET sites`, whether periodicUpdate considers a refresh due.

import (
	"bufio"
	"context"
	"encoding/hex"
	"encoding/json"
	"fmt"
	"io"
	"net"
	"os"
	"path/filepath"
	"regexp"
	"strconv"
	"strings"
	"sync"
	"time"
	"unicode/utf8"
)

type c15Beh struct {
	// socket backends: accept reject rejectplain drop refuse
	// http backends (c15_http.go): accept reject rejectplain nonjson badjson status rcfail remoteerr hangup drop refuse
	Kind string `json:"kind"`
	Code int    `json:"code,omitempty"` // reject: livestatus code, status: http status, rcfail: rc
	Msg  string `json:"msg,omitempty"`
}

type c15PeerIn struct {
	ID       string `json:"id"`
	State    string `json:"state"` // up warning down broken pending syncing
	HasData  bool   `json:"hasdata"`
	Stale    bool   `json:"stale"`
	KillPool bool   `json:"killpool"` // backend closes lmd's pooled connections before the session (not modelled: must not matter)
	// "" = Livestatus unix socket, "http" = Thruk API (scripted http server on a loopback address)
	Transport string   `json:"transport,omitempty"`
	Thruk     string   `json:"thruk,omitempty"` // version the http backend reports (< 2.23: json envelope, else raw answers)
	Script    []c15Beh `json:"script"`
	Resolve   []string `json:"resolve"`
}

type c15Item struct {
	Kind     string   `json:"kind"` // cmd get bad
	Hex      string   `json:"hex,omitempty"`
	Text     string   `json:"text,omitempty"` // informational only
	Backends []string `json:"backends,omitempty"`
	KA       bool     `json:"ka"`
}

type c15Write struct {
	Items []c15Item `json:"items"`
	Close bool      `json:"close"`
}

type c15Input struct {
	KeepAlive bool        `json:"backend_keepalive"`
	Peers     []c15PeerIn `json:"peers"`
	Writes    []c15Write  `json:"writes"`
}

type c15PeerObs struct {
	log    [][]string
	due    bool
	status string
}

type c15Obs struct {
	toks  [][]string // already rendered Coq terms
	peers []c15PeerObs
	notes []string
}

func init() {
	verifRegister("c15commands", "C15: command batches through a real lmd listener to scripted backends", c15Main)
}

// ---- runtime of one peer ----------------------------------------------------------------

type c15PeerRt struct {
	mu        sync.Mutex
	in        *c15PeerIn
	peer      *Peer
	backend   *vBackend
	hbackend  *c15HTTPBackend // http transport only
	httpOK    bool            // environment's copy of Peer.lastHTTPRequestSuccessful (when to expect a connect test)
	scriptPos int
	resolvPos int
	errSeen   int64 // increments of peer.errorCount already attributed to an attempt
	// the SendCommandsWithRetry call of the current write: attempts seen, and whether it has returned
	callAttempts int
	callDone     bool
	waitSince    time.Time // when the peer was first seen waiting (warning/pending) in this write
}

func (rt *c15PeerRt) cur() string {
	if rt.scriptPos < len(rt.in.Script) {
		return rt.in.Script[rt.scriptPos].Kind
	}

	return "accept"
}

// apply configures the backend for the connection attempt at scriptPos.
func (rt *c15PeerRt) apply() {
	beh := c15Beh{Kind: "accept"}
	if rt.scriptPos < len(rt.in.Script) {
		beh = rt.in.Script[rt.scriptPos]
	}
	if rt.hbackend != nil {
		switch beh.Kind {
		case "refuse", "drop":
			rt.hbackend.SetMode(beh.Kind)
		default:
			rt.hbackend.SetBehaviour(beh)
			rt.hbackend.SetMode("ok")
		}

		return
	}
	switch beh.Kind {
	case "refuse":
		rt.backend.SetMode(vModeRefuse)

		return
	case "reject":
		rt.backend.SetCommandMode(vCmdReject, fmt.Sprintf("%d: %s", beh.Code, beh.Msg))
	case "rejectplain":
		rt.backend.SetCommandMode(vCmdReject, beh.Msg)
	case "drop":
		rt.backend.SetCommandMode(vCmdDrop, "")
	default:
		rt.backend.SetCommandMode(vCmdAccept, "")
	}
	rt.backend.SetMode(vModeOK)
}

// advance is called when the connection attempt at scriptPos has happened.
func (rt *c15PeerRt) advance() {
	kind := rt.cur()
	rt.scriptPos++
	rt.callAttempts++
	// only a refused first attempt keeps SendCommandsWithRetry going (http: only if a connect test was made)
	retryable := kind == "refuse" && !(rt.hbackend != nil && rt.httpOK)
	if !retryable || rt.callAttempts >= 2 {
		rt.callDone = true
	}
	if rt.hbackend != nil {
		switch kind {
		case "refuse", "drop", "hangup":
			rt.httpOK = false
		default:
			rt.httpOK = true
		}
	}
	if c15CountsAsError(kind) {
		// lmd will count this answer as an error once it has read it
		rt.errSeen++
	}
	rt.apply()
}

// c15CountsAsError: answers after which Peer.Query calls setNextAddrFromErr once (errorCount+1), seen by the backend.
func c15CountsAsError(kind string) bool {
	switch kind {
	case "rejectplain", "nonjson", "badjson", "status", "rcfail", "remoteerr", "hangup":
		return true
	}

	return false
}

// unseen: the attempt does not reach the backend's request handler, the environment learns about it from errorCount.
func (rt *c15PeerRt) unseen() bool {
	kind := rt.cur()

	return kind == "refuse" || (rt.hbackend != nil && kind == "drop")
}

func c15Status(name string) PeerStatus {
	switch name {
	case "up":
		return PeerStatusUp
	case "warning":
		return PeerStatusWarning
	case "down":
		return PeerStatusDown
	case "broken":
		return PeerStatusBroken
	case "pending":
		return PeerStatusPending
	case "syncing":
		return PeerStatusSyncing
	}
	panic("c15: unknown status " + name)
}

func c15StatusCoq(st PeerStatus) string {
	switch st {
	case PeerStatusUp:
		return "Up"
	case PeerStatusWarning:
		return "Warning"
	case PeerStatusDown:
		return "Down"
	case PeerStatusBroken:
		return "Broken"
	case PeerStatusPending:
		return "Pending"
	default:
		return "Syncing"
	}
}

// poll is one step of the environment: advance scripts after refused attempts, end waits.
func (rt *c15PeerRt) poll(targeted bool) {
	rt.mu.Lock()
	defer rt.mu.Unlock()
	// a refused attempt calls setNextAddrFromErr twice (tryConnection, then Query); the first call is enough to know
	// (http: the failing POST alone counts once; the connect test is only made after a failed exchange)
	cnt := rt.peer.errorCount.Load()
	for rt.unseen() && cnt > rt.errSeen {
		if rt.hbackend != nil && (rt.httpOK || rt.cur() == "drop") {
			rt.errSeen++
		} else {
			rt.errSeen += 2
		}
		rt.advance()
	}
	if !rt.unseen() && cnt > rt.errSeen {
		rt.errSeen = cnt
	}
	if !targeted || rt.callDone {
		return
	}
	for {
		st := rt.peer.peerState.Get()
		if st != PeerStatusWarning && st != PeerStatusPending {
			rt.waitSince = time.Time{}

			return
		}
		// give lmd the time to look at the waiting state first (it polls once per second)
		if rt.waitSince.IsZero() {
			rt.waitSince = time.Now()
		}
		if time.Since(rt.waitSince) < 200*time.Millisecond {
			return
		}
		if rt.resolvPos >= len(rt.in.Resolve) {
			return
		}
		next := c15Status(rt.in.Resolve[rt.resolvPos])
		rt.resolvPos++
		if next == PeerStatusDown || next == PeerStatusBroken {
			rt.peer.data.Store(nil)
		}
		rt.peer.peerState.Set(next)
	}
}

// ---- one case -----------------------------------------------------------------------------

var (
	c15ReHeader = regexp.MustCompile(`^\d{3} +\d+$`)
	c15ReErr    = regexp.MustCompile(`^(\d+): (.*)$`)
	// texts of the http transport's errors, mapped to classes
	c15ReHTTPStatus = regexp.MustCompile(`^http request failed: (\d+)`)
	c15ReRemote     = regexp.MustCompile(`^remote site returned rc: (-?\d+) - (.*)$`)
)

func c15CanonMsg(msg string) string {
	switch {
	case strings.HasPrefix(msg, "http error:"):
		return "HTTPERR"
	case strings.HasPrefix(msg, "json error:"):
		return "JSONERR"
	case strings.HasPrefix(msg, "remote site too old"):
		return "TOOOLD"
	case c15ReHTTPStatus.MatchString(msg):
		return "HTTPSTATUS " + c15ReHTTPStatus.FindStringSubmatch(msg)[1]
	case c15ReRemote.MatchString(msg):
		m := c15ReRemote.FindStringSubmatch(msg)

		return "REMOTE rc=" + m[1] + " " + m[2]
	case strings.Contains(msg, "retries exceeded"):
		return "RETRIES"
	case strings.Contains(msg, "timed out"):
		return "TIMEOUT"
	case strings.Contains(msg, "connection error"), strings.Contains(msg, "connect:"):
		return "CONNERR"
	}

	return msg
}

func c15ItemBytes(it *c15Item) []byte {
	raw, err := hex.DecodeString(it.Hex)
	if err != nil {
		panic("c15: bad hex in input")
	}
	switch it.Kind {
	case "get":
		txt := "GET sites\nColumns: name\nOutputFormat: json\nResponseHeader: fixed16\n"
		if it.KA {
			txt += "KeepAlive: on\n"
		}

		return []byte(txt + "\n")
	case "cmd":
		out := append(append([]byte{}, raw...), '\n')
		if len(it.Backends) > 0 {
			out = append(out, []byte("Backends: "+strings.Join(it.Backends, " ")+"\n")...)
		}
		if it.KA {
			out = append(out, []byte("KeepAlive: on\n")...)
		}

		return append(out, '\n')
	default:
		return raw
	}
}

// c15Targeted: ids of the peers that get commands from this write (nil if the write does not parse).
func c15Targeted(in *c15Input, w *c15Write) map[string]bool {
	res := map[string]bool{}
	for i := range w.Items {
		it := &w.Items[i]
		if it.Kind == "bad" {
			return map[string]bool{}
		}
		if it.Kind == "get" {
			break
		}
		for p := range in.Peers {
			id := in.Peers[p].ID
			if len(it.Backends) == 0 {
				res[id] = true
			}
			for _, b := range it.Backends {
				if b == id {
					res[id] = true
				}
			}
		}
	}

	return res
}

func c15RunCase(idx int, in *c15Input) *c15Obs {
	obs := &c15Obs{}
	ctx := context.Background()
	lmd := verifNewDaemon()
	lmd.Config.UpdateInterval = 3600
	lmd.Config.IdleTimeout = 100000
	lmd.Config.StaleBackendTimeout = 30
	lmd.Config.BackendKeepAlive = in.KeepAlive
	lmd.Config.ListenTimeout = 30

	rts := make([]*c15PeerRt, 0, len(in.Peers))
	defer func() {
		for _, rt := range rts {
			// let goroutines that still wait in SendCommandsWithRetry finish
			rt.peer.peerState.Set(PeerStatusDown)
			rt.backend.Close()
			if rt.hbackend != nil {
				rt.hbackend.Close()
			}
		}
	}()
	now := currentUnixTime()
	for i := range in.Peers {
		pin := &in.Peers[i]
		backend := newVBackend(fmt.Sprintf("c15-%d-%d", idx, i))
		backend.SetDataset(vDefaultDataset(newVRand(uint64(idx*7+i)), 1, 1))
		rt := &c15PeerRt{in: pin, backend: backend}
		addr := backend.Addr()
		if pin.Transport == "http" {
			rt.hbackend = newC15HTTPBackend(idx, i, pin.Thruk, backend)
			addr = rt.hbackend.Addr()
			rt.httpOK = pin.State != "pending" // InitAllTables ends with a successful exchange
		}
		peer := vNewPeer(lmd, pin.ID, []string{addr}, nil)
		rt.peer = peer
		rts = append(rts, rt)
		if pin.State != "pending" {
			if err := peer.InitAllTables(ctx); err != nil {
				panic("c15: init failed: " + err.Error())
			}
		}
		switch pin.State {
		case "up":
		case "syncing":
			peer.peerState.Set(PeerStatusSyncing)
			peer.lastError.Set("reconnecting...")
		case "warning":
			peer.peerState.Set(PeerStatusWarning)
			peer.lastError.Set("forced warning")
		case "down":
			peer.peerState.Set(PeerStatusDown)
			peer.lastError.Set("forced down")
		case "broken":
			peer.setBroken("forced broken")
		case "pending":
			peer.lastUpdate.Set(now)
		default:
			panic("c15: bad state " + pin.State)
		}
		if !pin.HasData {
			peer.data.Store(nil)
		}
		if pin.Stale {
			peer.lastOnline.Set(now - 1000)
		} else {
			peer.lastOnline.Set(now)
		}
		peer.errorCount.Store(0)
		hasRefuse := false
		for _, b := range pin.Script {
			hasRefuse = hasRefuse || b.Kind == "refuse"
		}
		if pin.KillPool && !hasRefuse {
			backend.CloseConns()
		} else {
			// connection attempts of the session start from a clean pool
			peer.closeConnectionPool()
		}
		backend.ResetLogs()
		onCommand := func() {
			rt.mu.Lock()
			defer rt.mu.Unlock()
			if !rt.unseen() {
				rt.advance()
			}
		}
		if rt.hbackend != nil {
			rt.hbackend.ResetLogs()
			rt.hbackend.SetOnCommand(onCommand)
		} else {
			backend.OnCommandConn = onCommand
		}
		rt.apply()
	}

	// the real listener
	listen := filepath.Join(vSockDir(), fmt.Sprintf("%d-c15l-%d.sock", os.Getpid(), idx))
	os.Remove(listen)
	lmd.waitGroupInit.Add(1)
	listener := NewListener(lmd, listen)
	lmd.waitGroupInit.Wait()
	defer listener.Stop()

	conn, err := net.Dial("unix", listen)
	if err != nil {
		panic("c15: dial: " + err.Error())
	}
	defer conn.Close()
	rd := bufio.NewReader(conn)
	closed := false

	for wi := range in.Writes {
		w := &in.Writes[wi]
		if closed {
			break
		}
		buf := []byte{}
		endsWithGet := false
		for i := range w.Items {
			buf = append(buf, c15ItemBytes(&w.Items[i])...)
			endsWithGet = w.Items[i].Kind == "get"
		}
		targeted := c15Targeted(in, w)
		for _, rt := range rts {
			rt.mu.Lock()
			rt.callAttempts, rt.callDone, rt.waitSince = 0, false, time.Time{}
			rt.mu.Unlock()
		}
		stop := make(chan bool)
		done := make(chan bool)
		go func() {
			defer close(done)
			for {
				for _, rt := range rts {
					rt.poll(targeted[rt.in.ID])
				}
				select {
				case <-stop:
					return
				case <-time.After(5 * time.Millisecond):
				}
			}
		}()
		_, werr := conn.Write(buf)
		if werr != nil {
			obs.notes = append(obs.notes, "write error: "+werr.Error())
		}
		if w.Close {
			if uc, ok := conn.(*net.UnixConn); ok {
				_ = uc.CloseWrite()
			}
		}
		toks := []string{}
		_ = conn.SetReadDeadline(time.Now().Add(20 * time.Second))
		for {
			line, rerr := rd.ReadString('\n')
			if rerr != nil {
				if line != "" {
					toks = append(toks, c15LineTok(line))
				}
				if rerr == io.EOF || strings.Contains(rerr.Error(), "reset") {
					toks = append(toks, "TClosed")
				} else {
					toks = append(toks, "TClosed")
					obs.notes = append(obs.notes, "read error: "+rerr.Error())
				}
				closed = true

				break
			}
			line = strings.TrimRight(line, "\n")
			if len(line) == 15 && c15ReHeader.MatchString(line) {
				size, _ := strconv.Atoi(strings.TrimSpace(line[4:]))
				body := make([]byte, size)
				if _, rerr = io.ReadFull(rd, body); rerr != nil {
					obs.notes = append(obs.notes, "short body")
				}
				if strings.HasPrefix(line, "200") {
					toks = append(toks, "TGet")
				} else {
					toks = append(toks, fmt.Sprintf("TErr %s%%Z %s", strings.TrimSpace(line[:3]), coqStr(c15CanonMsg(strings.TrimSpace(string(body))))))
				}
				if endsWithGet && !w.Close {
					// the answer of this write is complete unless lmd closes
					if !c15LastGetKA(w) {
						continue
					}

					break
				}

				continue
			}
			toks = append(toks, c15LineTok(line))
		}
		close(stop)
		<-done
		for _, rt := range rts {
			rt.poll(false)
		}
		obs.toks = append(obs.toks, toks)
	}

	// final observations
	status := map[string]string{}
	out, qerr := vQuery(lmd, "GET sites\nColumns: key status\nOutputFormat: json\n\n")
	var rows [][]interface{}
	if qerr == nil {
		_ = json.Unmarshal(out, &rows)
	}
	for _, row := range rows {
		if len(row) == 2 {
			status[fmt.Sprintf("%v", row[0])] = c15StatusCoq(PeerStatus(int32(vToFloat(row[1]))))
		}
	}
	for _, rt := range rts {
		po := c15PeerObs{status: status[rt.in.ID]}
		byConn := map[int]int{}
		entries := rt.backend.Commands()
		if rt.hbackend != nil {
			entries = rt.hbackend.Commands() // one group per POST
		}
		for _, e := range entries {
			pos, ok := byConn[e.Conn]
			if !ok {
				pos = len(po.log)
				byConn[e.Conn] = pos
				po.log = append(po.log, nil)
			}
			po.log[pos] = append(po.log[pos], e.Cmd)
		}
		obs.peers = append(obs.peers, po)
	}
	sawTimeout := false
	for _, toks := range obs.toks {
		for _, tok := range toks {
			sawTimeout = sawTimeout || strings.HasPrefix(tok, "TErr 202")
		}
	}
	for i, rt := range rts {
		rt.backend.OnCommandConn = nil
		rt.backend.SetCommandMode(vCmdAccept, "")
		rt.backend.SetMode(vModeOK)
		if rt.hbackend != nil {
			rt.hbackend.SetOnCommand(nil)
			rt.hbackend.SetBehaviour(c15Beh{Kind: "accept"})
			rt.hbackend.SetMode("ok")
		}
		st := rt.peer.peerState.Get()
		if sawTimeout && (st == PeerStatusWarning || st == PeerStatusPending) {
			// a SendCommandsWithRetry may still be waiting (202): end it before probing
			rt.peer.peerState.Set(PeerStatusDown)
			time.Sleep(1100 * time.Millisecond)
			rt.peer.peerState.Set(st)
		}
		due, _ := rt.peer.periodicUpdate(ctx)
		obs.peers[i].due = due
	}

	return obs
}

func c15LastGetKA(w *c15Write) bool {
	if len(w.Items) == 0 {
		return false
	}
	last := w.Items[len(w.Items)-1]

	return last.Kind == "get" && last.KA
}

func c15LineTok(line string) string {
	line = strings.TrimRight(line, "\n")
	if m := c15ReErr.FindStringSubmatch(line); m != nil {
		return fmt.Sprintf("TErr %s%%Z %s", m[1], coqStr(c15CanonMsg(m[2])))
	}
	if strings.HasPrefix(line, "bad request") {
		return "TBad"
	}

	return fmt.Sprintf("TErr 999%%Z %s", coqStr(line))
}

// ---- Coq emission ---------------------------------------------------------------------------

func c15StateCoq(name string) string { return c15StatusCoq(c15Status(name)) }

func c15InitialErr(state string) string {
	switch state {
	case "syncing":
		return "reconnecting..."
	case "warning":
		return "forced warning"
	case "down":
		return "forced down"
	case "broken":
		return "broken: forced broken"
	case "pending":
		return "connecting..."
	}

	return ""
}

func c15Coq(idx int, in *c15Input, obs *c15Obs) string {
	peers := []string{}
	for i := range in.Peers {
		p := &in.Peers[i]
		script := []string{}
		for _, b := range p.Script {
			if p.Transport == "http" {
				// the answers that are errors without being `code: msg` are RejectPlain with the class of the
				// text lmd reports (c15CanonMsg); a broken exchange is HttpBroken
				switch b.Kind {
				case "nonjson":
					script = append(script, "RejectPlain "+coqStr(b.Msg))
				case "badjson":
					script = append(script, "RejectPlain "+coqStr("JSONERR"))
				case "status":
					script = append(script, "RejectPlain "+coqStr(fmt.Sprintf("HTTPSTATUS %d", b.Code)))
				case "rcfail":
					script = append(script, "RejectPlain "+coqStr(fmt.Sprintf("REMOTE rc=%d %s", b.Code, c15JSONString(b.Msg))))
				case "remoteerr":
					if strings.Contains(b.Msg, "t locate object method") {
						script = append(script, "RejectPlain "+coqStr("TOOOLD"))
					} else {
						script = append(script, "RejectPlain "+coqStr("REMOTE rc=0 "+b.Msg))
					}
				case "hangup":
					script = append(script, "HttpBroken true")
				case "drop":
					script = append(script, "HttpBroken false")
				}
				switch b.Kind {
				case "nonjson", "badjson", "status", "rcfail", "remoteerr", "hangup", "drop":
					continue
				}
			}
			switch b.Kind {
			case "reject":
				script = append(script, fmt.Sprintf("Reject %d%%Z %s", b.Code, coqStr(b.Msg)))
			case "rejectplain":
				script = append(script, "RejectPlain "+coqStr(b.Msg))
			case "drop":
				script = append(script, "Drop")
			case "refuse":
				script = append(script, "Refuse")
			default:
				script = append(script, "Accept")
			}
		}
		resolve := []string{}
		for _, r := range p.Resolve {
			resolve = append(resolve, c15StateCoq(r))
		}
		transport := "Socket"
		if p.Transport == "http" {
			transport = "(Http " + coqBool(p.State != "pending") + ")"
		}
		peers = append(peers, fmt.Sprintf("mkPeer %s %s %s %s %s %s %s [] [] false %s", coqStr(p.ID), c15StateCoq(p.State), coqBool(p.HasData),
			coqBool(p.Stale), coqStr(c15InitialErr(p.State)), coqList(script), coqList(resolve), transport))
	}
	writes := []string{}
	for i := range in.Writes {
		w := &in.Writes[i]
		items := []string{}
		for j := range w.Items {
			it := &w.Items[j]
			switch it.Kind {
			case "cmd":
				raw, _ := hex.DecodeString(it.Hex)
				items = append(items, fmt.Sprintf("Cmd %s %s %s", coqStr(string(raw)), coqStrList(it.Backends), coqBool(it.KA)))
			case "get":
				items = append(items, "Get "+coqBool(it.KA))
			default:
				items = append(items, "Bad")
			}
		}
		writes = append(writes, fmt.Sprintf("mkWrite %s %s", coqList(items), coqBool(w.Close)))
	}
	toks := []string{}
	for _, t := range obs.toks {
		toks = append(toks, coqList(t))
	}
	pobs := []string{}
	for _, p := range obs.peers {
		log := []string{}
		for _, b := range p.log {
			log = append(log, coqStrList(b))
		}
		st := p.status
		if st == "" {
			st = "Up"
		}
		pobs = append(pobs, fmt.Sprintf("(%s, %s, %s)", coqList(log), coqBool(p.due), st))
	}

	return fmt.Sprintf("Definition c%d : case := mkCase %s %s %s %s.\n", idx, coqList(peers), coqList(writes), coqList(toks), coqList(pobs))
}

// ---- generator ------------------------------------------------------------------------------

var c15IDs = []string{"a", "b2", "site-c"}

func c15GenArgs(r *vRand, utf8Only bool) []byte {
	alphabet := []string{"a", "B", "7", ";", ";", " ", " ", "_", "-", ".", "/", "=", "\t", "\r", "ä", "€", " ", " ", "\u0085", "\xff", "\x80", "\xc3", "\"", "'", "\\", "%", "COMMAND ", "[", "]", ":", "\x00", "\x1b"}
	n := r.intn(12)
	if r.chance(1, 12) {
		n = 40 + r.intn(400)
	}
	var sb strings.Builder
	for range n {
		piece := vPick(r, alphabet)
		if utf8Only && !utf8.ValidString(piece) {
			// the json envelope of the http transport cannot carry bytes that are not UTF-8
			piece = "\u00ff"
		}
		sb.WriteString(piece)
	}

	return []byte(sb.String())
}

func c15GenCmd(r *vRand, peers []c15PeerIn) c15Item {
	utf8Only := false
	for i := range peers {
		utf8Only = utf8Only || peers[i].Transport == "http"
	}
	names := []string{"SCHEDULE_FORCED_HOST_CHECK", "ACKNOWLEDGE_SVC_PROBLEM", "ADD_HOST_COMMENT", "x", "DEL_DOWNTIME"}
	line := ""
	if r.chance(1, 8) {
		line += vPick(r, []string{" ", "\t", "  "})
	}
	line += "COMMAND" + vPick(r, []string{" ", " ", " ", "  "}) + fmt.Sprintf("[%d]", r.intn(2000000000))
	if !r.chance(1, 15) {
		line += " " + vPick(r, names)
		if !r.chance(1, 6) {
			line += ";" + string(c15GenArgs(r, utf8Only))
		}
	}
	item := c15Item{Kind: "cmd", Hex: hex.EncodeToString([]byte(line)), KA: r.chance(1, 2)}
	if utf8.ValidString(line) {
		item.Text = line
	}
	switch {
	case r.chance(1, 2):
	case r.chance(4, 5):
		for i := range peers {
			if r.chance(1, 2) {
				item.Backends = append(item.Backends, peers[i].ID)
			}
		}
		if len(item.Backends) == 0 {
			item.Backends = []string{peers[r.intn(len(peers))].ID}
		}
		if r.chance(1, 8) {
			item.Backends = append(item.Backends, item.Backends[0])
		}
	default:
		item.Backends = []string{"nosuch"}
		if r.chance(1, 2) {
			item.Backends = append(item.Backends, peers[r.intn(len(peers))].ID)
		}
	}

	return item
}

func c15GenBeh(r *vRand) c15Beh {
	msgs := []string{"bad command", "Unknown command FOO", "x: y", "no such host 'ä'", "a"}
	switch n := r.intn(100); {
	case n < 45:
		return c15Beh{Kind: "accept"}
	case n < 65:
		return c15Beh{Kind: "reject", Code: vPick(r, []int{400, 404, 452, 500, 403}), Msg: vPick(r, msgs)}
	case n < 70:
		return c15Beh{Kind: "rejectplain", Msg: vPick(r, []string{"garbled answer", "ERROR"})}
	case n < 80:
		return c15Beh{Kind: "drop"}
	default:
		return c15Beh{Kind: "refuse"}
	}
}

// c15GenBehHTTP: behaviour of the scripted Thruk backend for one POST / connection.
func c15GenBehHTTP(r *vRand) c15Beh {
	msgs := []string{"bad command", "Unknown command FOO", "x: y", "no such host 'ä'", "a"}
	remote := []string{"ERROR: failed to connect to peer", "no backend available", "Can't locate object method \"x\"", "internal <error> & more"}
	// D-C15-2 (notes/C15.md, repaired by /repo 4f784aa): this answer made HTTPQueryWithRetries POST the batch again
	remote = append(remote, "ERROR: broken pipe.", "ERROR: broken pipe. at /usr/share/thruk/lib/Thruk/Backend/Peer.pm line 1")
	switch n := r.intn(100); {
	case n < 30:
		return c15Beh{Kind: "accept"}
	case n < 42:
		return c15Beh{Kind: "reject", Code: vPick(r, []int{400, 404, 452, 500, 403}), Msg: vPick(r, msgs)}
	case n < 46:
		return c15Beh{Kind: "rejectplain", Msg: vPick(r, []string{"garbled answer", "ERROR"})}
	case n < 56:
		return c15Beh{Kind: "rcfail", Code: vPick(r, []int{1, 3, 255, -1, 500}), Msg: vPick(r, []string{"remote command failed", "no such peer", "ERROR: broken pipe.", "x"})}
	case n < 64:
		return c15Beh{Kind: "remoteerr", Msg: vPick(r, remote)}
	case n < 71:
		return c15Beh{Kind: "status", Code: vPick(r, []int{500, 502, 503, 404, 401, 403})}
	case n < 76:
		return c15Beh{Kind: "nonjson", Msg: vPick(r, []string{"<html><body>login</body></html>", "OK - but not what you think", "[broken"})}
	case n < 79:
		return c15Beh{Kind: "badjson"}
	case n < 86:
		return c15Beh{Kind: "hangup"}
	case n < 90:
		return c15Beh{Kind: "drop"}
	default:
		return c15Beh{Kind: "refuse"}
	}
}

func c15Gen(r *vRand, slowAllowed bool) *c15Input {
	in := &c15Input{KeepAlive: r.chance(1, 3)}
	np := 1 + r.intn(3)
	// about a third of the cases talk to one of the backends through the Thruk http api
	httpPeer := -1
	if r.chance(1, 3) {
		httpPeer = r.intn(np)
		// most error answers of the http transport leave the backend in warning: these cases have their own budget
		slowAllowed = true
	}
	for i := range np {
		p := c15PeerIn{ID: c15IDs[i]}
		if i == httpPeer {
			p.Transport = "http"
			p.Thruk = vPick(r, []string{"2.20", "3.12"})
		}
		switch n := r.intn(100); {
		case n < 55:
			p.State, p.HasData = "up", !r.chance(1, 20)
		case n < 65:
			p.State, p.HasData = "syncing", r.chance(1, 2)
		case n < 75:
			p.State = "down"
		case n < 81:
			p.State = "broken"
		case n < 88:
			p.State = "pending"
		default:
			p.State, p.HasData = "warning", true
		}
		p.Stale = r.chance(1, 4)
		for range r.intn(4) {
			beh := c15GenBeh(r)
			if p.Transport == "http" {
				beh = c15GenBehHTTP(r)
			}
			p.Script = append(p.Script, beh)
			if beh.Kind == "refuse" && r.chance(2, 5) {
				// the retry fails as well
				p.Script = append(p.Script, beh)
			}
		}
		for range r.intn(3) {
			p.Resolve = append(p.Resolve, vPick(r, []string{"up", "up", "up", "down", "warning", "pending", "syncing"}))
		}
		// every wait ends: the last scripted change is "down" (except the rare unresolved wait -> 202 after 9.5s)
		unresolved := r.chance(1, 40)
		if !unresolved {
			p.Resolve = append(p.Resolve, "down")
		}
		if !slowAllowed {
			// no waiting, no refused connections: the case runs without any sleep inside lmd
			if p.State == "warning" || p.State == "pending" {
				p.State, p.HasData = "up", true
			}
			script := []c15Beh{}
			for _, b := range p.Script {
				if !c15SlowKind(b.Kind, p.Transport) {
					script = append(script, b)
				}
			}
			p.Script = script
		}
		if in.KeepAlive {
			p.KillPool = r.chance(1, 2)
		}
		in.Peers = append(in.Peers, p)
	}
	nw := 1 + r.intn(3)
	for wi := range nw {
		w := c15Write{}
		nc := r.intn(5)
		if r.chance(1, 15) {
			nc = 5 + r.intn(4)
		}
		for range nc {
			if r.chance(1, 40) {
				bad := vPick(r, []string{"COMMAND nots\n\n", "FOO bar\n\n", "COMMAND [1] x\nBogus: 1\n\n", "COMMAND [12] y\nBackends\n\n"})
				w.Items = append(w.Items, c15Item{Kind: "bad", Hex: hex.EncodeToString([]byte(bad)), Text: bad})

				continue
			}
			w.Items = append(w.Items, c15GenCmd(r, in.Peers))
		}
		last := wi == nw-1
		if !last || r.chance(1, 2) || nc == 0 {
			w.Items = append(w.Items, c15Item{Kind: "get", KA: !r.chance(1, 7)})
		}
		w.Close = last
		if !last && r.chance(1, 12) {
			w.Close = true
		}
		in.Writes = append(in.Writes, w)
	}
	for i := range in.Peers {
		res := in.Peers[i].Resolve
		if len(res) == 0 || res[len(res)-1] != "down" {
			// a wait nobody ends costs PeerCommandTimeout (9.5s) per flush: one write only
			in.Writes = in.Writes[:1]
			in.Writes[0].Close = true
		}
	}

	return in
}

// c15SlowKind: behaviours after which lmd sleeps (retry) or leaves the backend in a waiting state.
func c15SlowKind(kind, transport string) bool {
	if kind == "refuse" || c15CountsAsError(kind) {
		return true
	}

	return transport == "http" && kind == "drop"
}

func c15HasHTTP(in *c15Input) bool {
	for i := range in.Peers {
		if in.Peers[i].Transport == "http" {
			return true
		}
	}

	return false
}

// c15Slow estimates whether lmd will sleep while handling the case.
func c15Slow(in *c15Input) bool {
	for i := range in.Peers {
		p := &in.Peers[i]
		if p.State == "warning" || p.State == "pending" {
			return true
		}
		for _, b := range p.Script {
			if c15SlowKind(b.Kind, p.Transport) {
				return true
			}
		}
	}

	return false
}

func c15Main(args []string) int {
	flags := verifParseStreamFlags("c15commands", args)
	meta := newVMeta("commands", "generated client sessions on one connection: 1..3 writes of 0..8 COMMAND requests (arbitrary argument bytes incl. invalid UTF-8, "+
		"control characters, leading/trailing unicode white space; Backends header: none/subset/unknown/duplicate; KeepAlive on/off) each ended by a GET or by a half close; "+
		"1..3 peers in forced states up/syncing/warning/down/broken/pending with/without cached data, stale or fresh lastOnline, backend behaviour per connection attempt "+
		"accept/reject(code: msg)/reject without colon/drop/refuse, scripted status changes ending a wait. About a third of the cases make lmd wait (1s polls). "+
		"About a third of the cases connect one of the peers through the Thruk http api to a scripted http server (old json envelope / raw answers), "+
		"behaviour per POST accept/reject/text without colon/non-json body/truncated json/status != 200/json with rc != 0/remote error text/"+
		"hangup after the request was read/connection closed at accept/refused; argument bytes are valid UTF-8 in these cases. "+
		"non-trivial: at least one command reaches SendCommands; distinct by input")
	inputs := []*c15Input{}
	if flags.replay != "" {
		vReadReplay(flags.replay, &inputs)
	} else {
		rnd := newVRand(flags.seed*0x2545F4914F6CDD1D + 0x15)
		slowBudget := flags.n / 3
		for range flags.n {
			in := c15Gen(rnd.fork(), slowBudget > 0)
			if c15Slow(in) && !c15HasHTTP(in) {
				slowBudget--
			}
			inputs = append(inputs, in)
		}
	}

	results := make([]*c15Obs, len(inputs))
	workers := 48
	var wg sync.WaitGroup
	jobs := make(chan int)
	for range workers {
		wg.Add(1)
		go func() {
			defer wg.Done()
			for i := range jobs {
				start := time.Now()
				results[i] = c15RunCase(i, inputs[i])
				if d := time.Since(start); d > 12*time.Second {
					results[i].notes = append(results[i].notes, "slow case")
					if verifEnv("VERIF_C15_DEBUG", "") != "" {
						buf, _ := json.Marshal(inputs[i])
						fmt.Fprintf(os.Stderr, "slow case %d (%s): %s\n", i, d, buf)
					}
				}
			}
		}()
	}
	for i := range inputs {
		jobs <- i
	}
	close(jobs)
	wg.Wait()

	var sb strings.Builder
	sb.WriteString("From LMD Require Import C15.Run.\nOpen Scope N_scope.\n")
	names := []string{}
	for i, in := range inputs {
		sb.WriteString(c15Coq(i, in, results[i]))
		names = append(names, fmt.Sprintf("c%d", i))
		ncmd, delivered := 0, 0
		for _, w := range in.Writes {
			for _, it := range w.Items {
				meta.count("item=" + it.Kind)
				if it.Kind == "cmd" {
					ncmd++
					switch {
					case len(it.Backends) == 0:
						meta.count("backends=all")
					default:
						meta.count("backends=listed")
					}
				}
			}
		}
		for _, p := range in.Peers {
			meta.count("state=" + p.State)
			transport := "socket"
			if p.Transport == "http" {
				transport = "http"
				meta.count("thruk=" + p.Thruk)
			}
			meta.count("transport=" + transport)
			for _, b := range p.Script {
				if transport == "http" {
					meta.count("http-behaviour=" + b.Kind)
				} else {
					meta.count("behaviour=" + b.Kind)
				}
			}
		}
		for _, p := range results[i].peers {
			delivered += len(p.log)
		}
		meta.count(fmt.Sprintf("peers=%d", len(in.Peers)))
		meta.count(fmt.Sprintf("writes=%d", len(in.Writes)))
		if c15Slow(in) {
			meta.count("waits=yes")
		}
		for _, n := range results[i].notes {
			meta.count("note=" + n)
		}
		key, _ := json.Marshal(in)
		meta.add(string(key), ncmd > 0 && delivered > 0, in)
	}
	sb.WriteString("Definition cases : list case := " + coqList(names) + ".\n")
	sb.WriteString("Definition M := Eval vm_compute in mismatches cases.\nPrint M.\n")
	if err := os.WriteFile(flags.out, []byte(sb.String()), 0o644); err != nil {
		panic(err)
	}
	meta.write(flags.meta)

	return 0
}
