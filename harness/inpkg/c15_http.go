//go:build verif

package lmd

// C15: scripted in-process Thruk backend for the HTTP transport of lmd (peer source `http://...`,
// peer.go HTTPQuery / HTTPPostQuery / HTTPPostQueryResult / HTTPRestQuery). It speaks the
// `/thruk/cgi-bin/remote.cgi` json protocol well enough for InitAllTables, the periodic updates and
// command batches:
//
//   - `sub: get_processinfo`            -> {"rc":0,"version":V,"output":[null,0,{},null]}
//   - `action: url` (/thruk/r/v1/sites) -> a one element list (no federation)
//   - `sub: _raw_query`, GET ...        -> the answer of a vBackend dataset (vbackend.go evalBlock), wrapped in
//     the json envelope for old Thruk versions, raw for clients sending `Accept: application/livestatus`
//   - `sub: _raw_query`, COMMAND ...    -> logged (one log entry group per POST) and answered as scripted
//
// Scripted per POST that carries commands (c15Beh.Kind): accept, reject (`code: msg` text), rejectplain (text
// without colon), nonjson (body that is no json), badjson (truncated json), status (http status != 200),
// rcfail (well-formed json with rc != 0 and an output text), remoteerr (rc 0 with an error text in output[3]),
// hangup (request read, connection closed without an answer); per connection: drop (closed right after
// accept), refuse (listener closed). Keep-alive is disabled: every POST uses its own tcp connection, so a
// scripted behaviour always applies to exactly the next exchange.
//
// The listener uses an address of 127.0.0.0/8 derived from the process id and a port below the ephemeral
// range, so a refused backend can listen again on the same address later without colliding with anybody.

import (
	"encoding/json"
	"fmt"
	"io"
	"net"
	"net/http"
	"os"
	"strings"
	"sync"
	"time"
)

type c15HTTPBackend struct {
	mu       sync.Mutex
	host     string
	port     int
	version  string
	data     *vBackend // dataset and query evaluation only; its socket is not used
	listener net.Listener
	servers  []*http.Server
	mode     string // ok drop refuse
	beh      c15Beh
	reqNo    int
	log      []vCmdEntry
	closed   bool
	wg       sync.WaitGroup

	// OnCommand, if set, is called (without mu held) when a POST with commands has been logged, before it is answered.
	OnCommand func()
}

type c15DropListener struct {
	net.Listener
	backend *c15HTTPBackend
}

func (l *c15DropListener) Accept() (net.Conn, error) {
	for {
		conn, err := l.Listener.Accept()
		if err != nil {
			return nil, err
		}
		l.backend.mu.Lock()
		drop := l.backend.mode == "drop" || l.backend.listener != l.Listener
		l.backend.mu.Unlock()
		if drop {
			conn.Close()

			continue
		}

		return conn, nil
	}
}

func newC15HTTPBackend(idx, num int, version string, data *vBackend) *c15HTTPBackend {
	pid := os.Getpid()
	backend := &c15HTTPBackend{
		host:    fmt.Sprintf("127.%d.%d.%d", 64+(pid>>16)&0x3f, (pid>>8)&0xff, pid&0xff), // injective for pids below 2^22
		version: version,
		data:    data,
		mode:    "ok",
		beh:     c15Beh{Kind: "accept"},
	}
	var lastErr error
	for try := range 40 {
		backend.port = 20000 + (idx*3+num)%12000
		if try > 0 {
			backend.port = 10000 + (pid*31+idx*3+num+try*977)%10000
		}
		listener, err := net.Listen("tcp", backend.hostPort())
		if err == nil {
			backend.mu.Lock()
			backend.serve(listener)
			backend.mu.Unlock()

			return backend
		}
		lastErr = err
	}
	panic("c15 http backend: cannot listen: " + lastErr.Error())
}

func (b *c15HTTPBackend) hostPort() string { return fmt.Sprintf("%s:%d", b.host, b.port) }

// Addr is the peer source.
func (b *c15HTTPBackend) Addr() string {
	return "http://" + b.hostPort() + "/thruk/cgi-bin/remote.cgi"
}

// serve starts a server on the listener; caller holds b.mu.
func (b *c15HTTPBackend) serve(listener net.Listener) {
	b.listener = listener
	srv := &http.Server{Handler: http.HandlerFunc(b.handle), ReadHeaderTimeout: 30 * time.Second}
	srv.SetKeepAlivesEnabled(false)
	b.servers = append(b.servers, srv)
	b.wg.Add(1)
	go func() {
		defer b.wg.Done()
		_ = srv.Serve(&c15DropListener{Listener: listener, backend: b})
	}()
}

// SetMode: ok (answer), drop (close every connection right after accept), refuse (do not listen).
func (b *c15HTTPBackend) SetMode(mode string) {
	b.mu.Lock()
	defer b.mu.Unlock()
	if b.closed {
		return
	}
	b.mode = mode
	if mode == "refuse" {
		if b.listener != nil {
			b.listener.Close()
			b.listener = nil
		}

		return
	}
	if b.listener != nil {
		return
	}
	var lastErr error
	for range 400 {
		listener, err := net.Listen("tcp", b.hostPort())
		if err == nil {
			b.serve(listener)

			return
		}
		lastErr = err
		time.Sleep(5 * time.Millisecond)
	}
	panic("c15 http backend: cannot listen again: " + lastErr.Error())
}

func (b *c15HTTPBackend) SetBehaviour(beh c15Beh) {
	b.mu.Lock()
	defer b.mu.Unlock()
	b.beh = beh
}

func (b *c15HTTPBackend) SetOnCommand(fn func()) {
	b.mu.Lock()
	defer b.mu.Unlock()
	b.OnCommand = fn
}

func (b *c15HTTPBackend) Commands() []vCmdEntry {
	b.mu.Lock()
	defer b.mu.Unlock()

	return append([]vCmdEntry{}, b.log...)
}

func (b *c15HTTPBackend) ResetLogs() {
	b.mu.Lock()
	defer b.mu.Unlock()
	b.log = nil
}

func (b *c15HTTPBackend) Close() {
	b.mu.Lock()
	b.closed = true
	if b.listener != nil {
		b.listener.Close()
		b.listener = nil
	}
	servers := b.servers
	b.servers = nil
	b.mu.Unlock()
	for _, srv := range servers {
		srv.Close()
	}
	b.wg.Wait()
}

func (b *c15HTTPBackend) envelope(rc int, output string) string {
	return fmt.Sprintf("{\"rc\":%d,\"version\":%q,\"branch\":\"1\",\"output\":%s}\n", rc, b.version, output)
}

func c15JSONString(text string) string {
	buf, err := json.Marshal(text)
	if err != nil {
		panic(err)
	}

	return string(buf)
}

func (b *c15HTTPBackend) handle(wrt http.ResponseWriter, req *http.Request) {
	var data struct {
		Options struct {
			Action string   `json:"action"`
			Sub    string   `json:"sub"`
			Args   []string `json:"args"`
		} `json:"options"`
	}
	if err := json.Unmarshal([]byte(req.PostFormValue("data")), &data); err != nil {
		http.Error(wrt, "cannot parse request", http.StatusBadRequest)

		return
	}
	raw := req.Header.Get("Accept") == "application/livestatus"
	opt := &data.Options
	switch {
	case opt.Sub == "get_processinfo":
		_, _ = io.WriteString(wrt, b.envelope(0, "[null,0,{},null]"))
	case opt.Action == "url":
		_, _ = io.WriteString(wrt, "[{\"id\":\"c15\",\"name\":\"c15\"}]\n")
	case opt.Sub == "_raw_query" && len(opt.Args) == 1 && strings.HasPrefix(opt.Args[0], "COMMAND "):
		b.handleCommands(wrt, opt.Args[0], raw)
	case opt.Sub == "_raw_query" && len(opt.Args) == 1:
		var reply []byte
		b.data.WithLock(func() { reply, _ = b.data.evalBlock([]byte(opt.Args[0])) })
		if raw {
			_, _ = wrt.Write(reply)
		} else {
			_, _ = io.WriteString(wrt, b.envelope(0, "[null,0,"+c15JSONString(string(reply))+",null]"))
		}
	default:
		http.Error(wrt, "unknown request", http.StatusBadRequest)
	}
}

func (b *c15HTTPBackend) handleCommands(wrt http.ResponseWriter, text string, raw bool) {
	b.mu.Lock()
	b.reqNo++
	beh := b.beh
	for _, line := range strings.Split(strings.TrimRight(text, "\n"), "\n") {
		if strings.HasPrefix(line, "COMMAND ") {
			b.log = append(b.log, vCmdEntry{Conn: b.reqNo, Batch: b.reqNo, Cmd: line})
		}
	}
	hook := b.OnCommand
	b.mu.Unlock()
	if hook != nil {
		// the script moves on before the answer leaves: the next exchange meets the next behaviour
		hook()
	}
	reqNo := b.reqNo
	answerText := func(txt string) {
		if raw && txt == "" && reqNo%2 == 0 {
			// an accepted batch is answered with an empty body as well as with an empty line (both seen from Thruk)
			return
		}
		if raw {
			_, _ = io.WriteString(wrt, txt+"\n")
		} else {
			_, _ = io.WriteString(wrt, b.envelope(0, "[null,0,"+c15JSONString(txt)+",null]"))
		}
	}
	switch beh.Kind {
	case "reject":
		answerText(fmt.Sprintf("%d: %s", beh.Code, beh.Msg))
	case "rejectplain":
		answerText(beh.Msg)
	case "nonjson":
		_, _ = io.WriteString(wrt, beh.Msg+"\n")
	case "badjson":
		_, _ = io.WriteString(wrt, "{\"rc\":0,\"version\":\"2.20\",\"output\":[null,0,")
	case "status":
		wrt.WriteHeader(beh.Code)
		_, _ = io.WriteString(wrt, "<html><body>scripted failure</body></html>\n")
	case "rcfail":
		_, _ = io.WriteString(wrt, b.envelope(beh.Code, c15JSONString(beh.Msg)))
	case "remoteerr":
		_, _ = io.WriteString(wrt, b.envelope(0, "[null,0,\"\","+c15JSONString(beh.Msg)+"]"))
	case "hangup":
		if hijacker, ok := wrt.(http.Hijacker); ok {
			if conn, _, err := hijacker.Hijack(); err == nil {
				conn.Close()

				return
			}
		}
		panic("c15 http backend: cannot hijack")
	default:
		answerText("")
	}
}
