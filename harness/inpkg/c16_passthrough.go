//go:build verif

package lmd

// c16_passthrough.go - correspondence stream of C16 (pass-through tables).
//
// A real Daemon with up to 4 real Peers (vNewPeer) is queried with generated
// `GET log` requests (vQuery: NewRequest/ExpandRequestedBackends/NewResponse/
// Buffer).  Every peer talks to a scripted backend: a vBackend holds the
// dataset of the `log` table and the query log, a c16Front (below) listens on a
// socket of its own and answers `GET log` from that dataset with vbackend's
// evaluator pieces (vReadBlock, vMatch, vStats, vFrame, vZeroValue) - it exists
// only because vBackend.evalBlock does not know Stats with group-by columns and
// does not expose what it answered.  Every received block is written into the
// vBackend's query log, so QueryLog() is the observation of the sub-queries.
//
// Observed per case: the client response (rows / stats rows / failed map /
// columns header / total_count) and, per backend, the sub-query it received,
// parsed back with NewRequest(ParseDefault).  A case runs in a child process
// (sub command c16child): BuildPassThroughResult runs PassThroughQuery in
// goroutines guarded by logPanicExitPeer (os.Exit), Response.Less panics on the
// request goroutine - both end the process, which is observed as `crash`.

import (
	"bufio"
	"bytes"
	"context"
	"encoding/json"
	"fmt"
	"math"
	"net"
	"os"
	"os/exec"
	"path/filepath"
	"sort"
	"strconv"
	"strings"
	"sync"
)

// ---- input ---------------------------------------------------------------------------

type c16BackendIn struct {
	Key   string          `json:"key"`
	Name  string          `json:"name"`
	State string          `json:"state"` // up | warning | down | refuse (peer up, nobody listens)
	Rows  [][]interface{} `json:"rows"`  // over c16Input.Cols
}

type c16SortIn struct {
	Col  string `json:"col"`
	Desc bool   `json:"desc"`
}

type c16Input struct {
	Cols     []string       `json:"cols"` // dataset columns of the rows
	Backends []c16BackendIn `json:"backends"`
	Columns  []string       `json:"columns"`
	Sort     []c16SortIn    `json:"sort"`
	Limit    *int           `json:"limit"`
	Offset   int            `json:"offset"`
	Stats    []string       `json:"stats"`  // "state = 0", "sum state", "avg ..", "min ..", "max .."
	Filter   []string       `json:"filter"` // complete header lines: "Filter: ..", "And: 2", "Negate:"
	Format   string         `json:"format"` // json | wrapped_json
	Headers  bool           `json:"headers"`
	AuthUser string         `json:"authuser"`
	Select   []string       `json:"select"` // Backends header (keys), empty = no header
}

func (in *c16Input) text() string {
	var sb strings.Builder
	sb.WriteString("GET log\n")
	if len(in.Columns) > 0 {
		sb.WriteString("Columns: " + strings.Join(in.Columns, " ") + "\n")
	}
	for _, f := range in.Filter {
		sb.WriteString(f + "\n")
	}
	for _, s := range in.Stats {
		sb.WriteString("Stats: " + s + "\n")
	}
	for _, s := range in.Sort {
		dir := "asc"
		if s.Desc {
			dir = "desc"
		}
		sb.WriteString("Sort: " + s.Col + " " + dir + "\n")
	}
	if in.Limit != nil {
		fmt.Fprintf(&sb, "Limit: %d\n", *in.Limit)
	}
	if in.Offset > 0 {
		fmt.Fprintf(&sb, "Offset: %d\n", in.Offset)
	}
	if in.Headers {
		sb.WriteString("ColumnHeaders: on\n")
	}
	if in.AuthUser != "" {
		sb.WriteString("AuthUser: " + in.AuthUser + "\n")
	}
	if len(in.Select) > 0 {
		sb.WriteString("Backends: " + strings.Join(in.Select, " ") + "\n")
	}
	sb.WriteString("OutputFormat: " + in.Format + "\n\n")

	return sb.String()
}

func c16StatKind(s string) string {
	switch strings.SplitN(s, " ", 2)[0] {
	case "sum":
		return "SSum"
	case "avg":
		return "SAvg"
	case "min":
		return "SMin"
	case "max":
		return "SMax"
	default:
		return "SCount"
	}
}

// ---- observation ---------------------------------------------------------------------

type c16Sub struct {
	Count  int             `json:"count"` // number of queries the backend received
	Bad    string          `json:"bad"`   // not parsable / unexpected shape
	Table  string          `json:"table"`
	Cols   []string        `json:"cols"`
	Filter []string        `json:"filter"`
	Stats  []string        `json:"stats"`
	Limit  *int            `json:"limit"`
	Auth   string          `json:"auth"`
	Other  bool            `json:"other"` // carries Sort/Offset/Backends/Wait headers
	Reply  [][]interface{} `json:"reply"` // stats queries: what the backend answered
}

type c16Obs struct {
	Crash    string            `json:"crash"`
	Err      string            `json:"err"`
	Raw      string            `json:"raw"`
	Rows     [][]interface{}   `json:"rows"`
	Header   []string          `json:"header"`
	HasHdr   bool              `json:"hashdr"`
	Failed   map[string]string `json:"failed"`
	HasFail  bool              `json:"hasfail"`
	Total    int               `json:"total"`
	Subs     []c16Sub          `json:"subs"`
	CFilter  []string          `json:"cfilter"` // the client's filter / stats, rendered by the same code
	CStats   []string          `json:"cstats"`
	Matched  [][][]interface{} `json:"matched"` // per backend: dataset rows (all backend columns) matching the client's filter
	ParseErr string            `json:"parseerr"`
}

// ---- schema --------------------------------------------------------------------------

type c16Col struct {
	name    string
	virtual bool
	vkind   string // VKey | VName | VEmpty
	ctype   string // TNum | TStr | TList
}

func c16Schema() []c16Col {
	table := Objects.Tables[TableLog]
	res := []c16Col{}
	for _, col := range table.columns {
		entry := c16Col{name: col.Name}
		switch col.DataType {
		case IntCol, Int64Col, FloatCol:
			entry.ctype = "TNum"
		case StringCol, StringLargeCol:
			entry.ctype = "TStr"
		default:
			entry.ctype = "TList"
		}
		if col.StorageType == VirtualStore {
			entry.virtual = true
			switch {
			case col.VirtualMap != nil && col.VirtualMap.statusKey == PeerKey:
				entry.vkind = "VKey"
			case col.VirtualMap != nil && col.VirtualMap.statusKey == PeerName:
				entry.vkind = "VName"
			default:
				panic("c16: unexpected virtual column in the log table: " + col.Name)
			}
		} else if col.StorageType != LocalStore {
			panic("c16: unexpected storage type in the log table: " + col.Name)
		}
		res = append(res, entry)
	}

	return res
}

func c16BackendCols() []string {
	res := []string{}
	for _, c := range c16Schema() {
		if !c.virtual {
			res = append(res, c.name)
		}
	}

	return res
}

// ---- the scripted backend front --------------------------------------------------------

type c16Front struct {
	vb       *vBackend
	addr     string
	listener net.Listener
	wg       sync.WaitGroup
	mu       sync.Mutex
	replies  [][][]interface{} // per received query: the data rows answered
}

func newC16Front(name string) *c16Front {
	front := &c16Front{vb: newVBackend(name)}
	front.addr = filepath.Join(vSockDir(), fmt.Sprintf("%d-%sf.sock", os.Getpid(), name))
	if len(front.addr) > 100 {
		panic("c16: socket path too long")
	}

	return front
}

func (f *c16Front) Listen() {
	os.Remove(f.addr)
	listener, err := net.Listen("unix", f.addr)
	if err != nil {
		panic("c16: listen: " + err.Error())
	}
	f.listener = listener
	f.wg.Add(1)
	go func() {
		defer f.wg.Done()
		for {
			conn, aerr := listener.Accept()
			if aerr != nil {
				return
			}
			f.wg.Add(1)
			go func() {
				defer f.wg.Done()
				defer conn.Close()
				rd := bufio.NewReaderSize(conn, 1<<16)
				for {
					block, _, rerr := vReadBlock(rd)
					if rerr != nil || len(block) == 0 {
						return
					}
					reply, keepAlive := f.answer(block)
					if _, werr := conn.Write(reply); werr != nil || !keepAlive {
						return
					}
				}
			}()
		}
	}()
}

func (f *c16Front) Close() {
	if f.listener != nil {
		f.listener.Close()
		os.Remove(f.addr)
	}
	f.wg.Wait()
	f.vb.Close()
}

func c16Getter(tab *vTable) vGetter {
	return func(row []interface{}, col string) interface{} {
		if idx := tab.colIndex(col); idx >= 0 {
			return row[idx]
		}

		return vZeroValue("log", col)
	}
}

func c16MatchRows(tab *vTable, filter []*Filter) [][]interface{} {
	getter := c16Getter(tab)
	rows := [][]interface{}{}
	for _, row := range tab.Rows {
		ok := true
		for _, flt := range filter {
			if !vMatch(flt, row, getter) {
				ok = false

				break
			}
		}
		if ok {
			rows = append(rows, row)
		}
	}

	return rows
}

func c16Round3(v float64) float64 { return math.Round(v*1000) / 1000 }

// answer evaluates one `GET log` block on the vBackend's dataset.
func (f *c16Front) answer(block []byte) (reply []byte, keepAlive bool) {
	vb := f.vb
	vb.mu.Lock()
	defer vb.mu.Unlock()
	vb.Queries = append(vb.Queries, string(block))
	text := append(append([]byte{}, bytes.TrimRight(block, "\n")...), '\n', '\n')
	fixed16 := &Request{ResponseFixed16: bytes.Contains(block, []byte("ResponseHeader: fixed16"))}
	req, _, err := NewRequest(context.Background(), vb.daemon, bufio.NewReader(bytes.NewReader(text)), ParseDefault)
	if err != nil || req == nil || req.Table != TableLog {
		f.addReply(nil)

		return vFrame(fixed16, 400, []byte("bad request\n")), false
	}
	tab := vb.tables["log"]
	if tab == nil {
		f.addReply(nil)

		return vFrame(req, 404, []byte("Table 'log' does not exist.\n")), false
	}
	getter := c16Getter(tab)
	rows := c16MatchRows(tab, req.Filter)
	out := [][]interface{}{}
	if len(req.Stats) > 0 {
		// group by the requested columns, groups in order of first appearance
		type group struct {
			key  []interface{}
			rows [][]interface{}
		}
		groups := []*group{}
		index := map[string]*group{}
		if len(req.Columns) == 0 {
			groups = append(groups, &group{rows: rows})
		} else {
			for _, row := range rows {
				key := make([]interface{}, len(req.Columns))
				for i, c := range req.Columns {
					key[i] = getter(row, c)
				}
				buf, _ := json.Marshal(key)
				grp := index[string(buf)]
				if grp == nil {
					grp = &group{key: key}
					index[string(buf)] = grp
					groups = append(groups, grp)
				}
				grp.rows = append(grp.rows, row)
			}
		}
		for _, grp := range groups {
			res := append([]interface{}{}, grp.key...)
			for _, st := range req.Stats {
				res = append(res, c16Round3(vToFloat(vStats(st, grp.rows, getter))))
			}
			out = append(out, res)
		}
	} else {
		cols := req.Columns
		if len(cols) == 0 {
			// Livestatus: no Columns header = all columns of the table (it would also send a header
			// line first, which this backend leaves out)
			cols = c16BackendCols()
		}
		for _, row := range rows {
			if req.Limit != nil && *req.Limit >= 0 && len(out) >= *req.Limit {
				break
			}
			res := make([]interface{}, len(cols))
			for i, c := range cols {
				res[i] = getter(row, c)
			}
			out = append(out, res)
		}
	}
	f.addReply(out)
	var body []byte
	if req.OutputFormat == OutputFormatWrappedJSON {
		body, _ = json.Marshal(map[string]interface{}{"data": out, "total_count": len(rows)})
	} else {
		body, _ = json.Marshal(out)
	}
	body = append(body, '\n')

	return vFrame(req, 200, body), req.KeepAlive
}

func (f *c16Front) addReply(rows [][]interface{}) {
	f.mu.Lock()
	f.replies = append(f.replies, rows)
	f.mu.Unlock()
}

// ---- running one case ---------------------------------------------------------------------

func c16ParseText(daemon *Daemon, text string) (*Request, error) {
	if !strings.HasSuffix(text, "\n\n") {
		text = strings.TrimRight(text, "\n") + "\n\n"
	}
	req, _, err := NewRequest(context.Background(), daemon, bufio.NewReader(strings.NewReader(text)), ParseDefault)
	if err == nil && req == nil {
		err = fmt.Errorf("no request")
	}

	return req, err
}

// c16FlattenAnd replaces top level And groups by their members (header lines are and-ed anyway;
// ParseOptimize does the same through optimizeFilterIndentation).
func c16FlattenAnd(list []*Filter) []*Filter {
	res := []*Filter{}
	for _, flt := range list {
		if flt.groupOperator == And && len(flt.filter) > 0 && !flt.negate {
			res = append(res, c16FlattenAnd(flt.filter)...)
		} else {
			res = append(res, flt)
		}
	}

	return res
}

func c16Render(list []*Filter, prefix string) []string {
	res := []string{}
	if prefix == "" {
		list = c16FlattenAnd(list)
	}
	for _, flt := range list {
		for _, line := range strings.Split(strings.TrimRight(flt.String(prefix), "\n"), "\n") {
			res = append(res, line)
		}
	}

	return res
}

// c16Prepare computes what does not depend on the daemon: the client's filter and Stats lines as lmd
// renders them and, per backend, the dataset rows (all backend columns) that satisfy the client's filter
// according to vbackend's evaluator.
func c16Prepare(in *c16Input, obs *c16Obs) {
	creq, perr := c16ParseText(verifNewDaemon(), in.text())
	if perr != nil {
		obs.ParseErr = perr.Error()

		return
	}
	obs.CFilter = c16Render(creq.Filter, "")
	obs.CStats = c16Render(creq.Stats, "Stats")
	bcols := c16BackendCols()
	obs.Matched = nil
	for i := range in.Backends {
		tab := &vTable{Cols: in.Cols, Rows: in.Backends[i].Rows}
		getter := c16Getter(tab)
		matched := [][]interface{}{}
		for _, row := range c16MatchRows(tab, creq.Filter) {
			full := make([]interface{}, len(bcols))
			for k, c := range bcols {
				full[k] = getter(row, c)
			}
			matched = append(matched, full)
		}
		obs.Matched = append(obs.Matched, matched)
	}
}

func c16RunCase(idx int, in *c16Input) *c16Obs {
	obs := &c16Obs{}
	lmd := verifNewDaemon()
	fronts := make([]*c16Front, 0, len(in.Backends))
	defer func() {
		for _, front := range fronts {
			front.Close()
		}
	}()
	text := in.text()
	c16Prepare(in, obs)
	for i := range in.Backends {
		bin := &in.Backends[i]
		front := newC16Front(fmt.Sprintf("c16-%d-%d", idx, i))
		fronts = append(fronts, front)
		front.vb.SetTable("log", in.Cols, bin.Rows)
		peer := vNewPeer(lmd, bin.Key, []string{front.addr}, nil)
		peer.Name = bin.Name
		peer.lastOnline.Set(currentUnixTime())
		switch bin.State {
		case "up":
			front.Listen()
			peer.peerState.Set(PeerStatusUp)
		case "warning":
			front.Listen()
			peer.peerState.Set(PeerStatusWarning)
			peer.lastError.Set("forced warning")
		case "down":
			front.Listen()
			peer.peerState.Set(PeerStatusDown)
			peer.lastError.Set("forced down")
		case "refuse":
			// the peer believes the backend is up, nobody listens
			front.vb.SetMode(vModeRefuse)
			peer.peerState.Set(PeerStatusUp)
		default:
			panic("c16: bad state " + bin.State)
		}
	}

	raw, err := vQuery(lmd, text)
	if err != nil {
		obs.Err = err.Error()
	} else {
		obs.Raw = string(raw)
		c16Decode(in, raw, obs)
	}

	for _, front := range fronts {
		sub := c16Sub{}
		queries := front.vb.QueryLog()
		sub.Count = len(queries)
		if len(queries) == 1 {
			sreq, serr := c16ParseText(front.vb.daemon, queries[0])
			if serr != nil {
				sub.Bad = serr.Error()
			} else {
				sub.Table = sreq.Table.String()
				sub.Cols = sreq.Columns
				sub.Filter = c16Render(sreq.Filter, "")
				sub.Stats = c16Render(sreq.Stats, "Stats")
				sub.Limit = sreq.Limit
				sub.Auth = sreq.AuthUser
				sub.Other = len(sreq.Sort) > 0 || sreq.Offset != 0 || len(sreq.Backends) > 0 || sreq.WaitTrigger != "" ||
					len(sreq.WaitCondition) > 0 || sreq.ColumnsHeaders
				if !sreq.ResponseFixed16 || sreq.OutputFormat != OutputFormatJSON {
					sub.Bad = "sub query without fixed16 / json"
				}
			}
			front.mu.Lock()
			if len(front.replies) == 1 {
				sub.Reply = front.replies[0]
			}
			front.mu.Unlock()
		}
		obs.Subs = append(obs.Subs, sub)
	}

	return obs
}

// c16Decode splits the client response into header, rows, failed map.
func c16Decode(in *c16Input, raw []byte, obs *c16Obs) {
	sendHeader := len(in.Stats) == 0 && (in.Headers || len(in.Columns) == 0)
	var rows [][]interface{}
	if in.Format == "wrapped_json" {
		var wrapped struct {
			Data    [][]interface{}   `json:"data"`
			Failed  map[string]string `json:"failed"`
			Columns []string          `json:"columns"`
			Total   int               `json:"total_count"`
		}
		if err := json.Unmarshal(raw, &wrapped); err != nil {
			obs.Err = "response is no wrapped json: " + err.Error()

			return
		}
		rows = wrapped.Data
		obs.Failed = wrapped.Failed
		obs.HasFail = true
		obs.Total = wrapped.Total
		if wrapped.Columns != nil {
			obs.HasHdr = true
			obs.Header = wrapped.Columns
		}
	} else {
		if err := json.Unmarshal(raw, &rows); err != nil {
			obs.Err = "response is no json table: " + err.Error()

			return
		}
		if sendHeader && len(rows) > 0 {
			obs.HasHdr = true
			for _, c := range rows[0] {
				obs.Header = append(obs.Header, fmt.Sprintf("%v", c))
			}
			rows = rows[1:]
		}
	}
	if rows == nil {
		rows = [][]interface{}{}
	}
	obs.Rows = rows
}

// ---- child process ---------------------------------------------------------------------------

func init() {
	verifRegister("c16passthrough", "C16: generated GET log requests through real peers against scripted backends", c16Main)
	verifRegister("c16child", "C16: run cases (JSON list on stdin) in this process, one observation per line", c16ChildMain)
}

func c16ChildMain(_ []string) int {
	inputs := []*c16Input{}
	if err := json.NewDecoder(os.Stdin).Decode(&inputs); err != nil {
		fmt.Fprintf(os.Stderr, "c16child: %s\n", err)

		return 3
	}
	out := bufio.NewWriter(os.Stdout)
	for i, in := range inputs {
		fmt.Fprintf(out, "BEGIN %d\n", i)
		out.Flush()
		obs := c16RunCase(i, in)
		buf, _ := json.Marshal(obs)
		fmt.Fprintf(out, "OBS %s\n", buf)
		out.Flush()
	}
	fmt.Fprintf(out, "END\n")
	out.Flush()

	return 0
}

// c16RunAll runs the inputs in child processes; a case during which the child dies is observed as crash.
func c16RunAll(inputs []*c16Input) []*c16Obs {
	res := make([]*c16Obs, 0, len(inputs))
	for len(res) < len(inputs) {
		rest := inputs[len(res):]
		buf, _ := json.Marshal(rest)
		cmd := exec.Command(os.Args[0], "c16child")
		cmd.Stdin = bytes.NewReader(buf)
		cmd.Env = append(os.Environ(), "VERIF_LOGLEVEL=off")
		var stdout, stderr bytes.Buffer
		cmd.Stdout, cmd.Stderr = &stdout, &stderr
		runErr := cmd.Run()
		got, begun, ended := 0, -1, false
		for _, line := range strings.Split(stdout.String(), "\n") {
			switch {
			case strings.HasPrefix(line, "BEGIN "):
				fmt.Sscanf(line, "BEGIN %d", &begun)
			case strings.HasPrefix(line, "OBS "):
				obs := &c16Obs{}
				if jerr := json.Unmarshal([]byte(line[4:]), obs); jerr != nil {
					panic(jerr)
				}
				res = append(res, obs)
				got++
			case line == "END":
				ended = true
			}
		}
		if ended && runErr == nil {
			break
		}
		if begun != got || got >= len(rest) {
			panic(fmt.Sprintf("c16: child failed outside a case (begun %d, got %d): %v\n%s", begun, got, runErr, stderr.String()))
		}
		// the child died while running case `begun`
		msg := c16CrashLine(stderr.String())
		crashed := &c16Obs{Crash: msg}
		c16Prepare(rest[got], crashed)
		res = append(res, crashed)
		c16CleanSockets(cmd.Process.Pid)
	}

	return res
}

func c16CrashLine(stderr string) string {
	for _, line := range strings.Split(stderr, "\n") {
		if strings.Contains(line, "panic") || strings.Contains(line, "Panic") || strings.Contains(line, "fatal error") {
			line = strings.TrimSpace(line)
			if len(line) > 200 {
				line = line[:200]
			}

			return line
		}
	}

	return "process exited"
}

func c16CleanSockets(pid int) {
	matches, _ := filepath.Glob(filepath.Join(vSockDir(), fmt.Sprintf("%d-c16-*", pid)))
	for _, m := range matches {
		os.Remove(m)
	}
}

// ---- Coq emission ----------------------------------------------------------------------------

func c16CoqCell(v interface{}) string {
	switch val := v.(type) {
	case string:
		return "CStr " + coqStr(val)
	case float64:
		if val == math.Trunc(val) && math.Abs(val) < 1e15 {
			return "CNum " + coqZ(int64(val)) + "%Z"
		}

		return "CBad"
	case []interface{}:
		parts := make([]string, 0, len(val))
		for _, e := range val {
			str, ok := e.(string)
			if !ok {
				return "CBad"
			}
			parts = append(parts, str)
		}

		return "CList " + coqStrList(parts)
	default:
		return "CBad"
	}
}

func c16CoqRow(row []interface{}) string {
	parts := make([]string, 0, len(row))
	for _, c := range row {
		parts = append(parts, c16CoqCell(c))
	}

	return coqList(parts)
}

func c16CoqRows(rows [][]interface{}) string {
	parts := make([]string, 0, len(rows))
	for _, r := range rows {
		parts = append(parts, c16CoqRow(r))
	}

	return coqList(parts)
}

func c16Micro(v interface{}) (string, bool) {
	num, ok := v.(float64)
	if !ok || math.IsNaN(num) || math.Abs(num) > 1e12 {
		return "0", false
	}

	return coqZ(int64(math.Round(num*1e6))) + "%Z", true
}

// c16CoqStatRows renders rows [key cells..., numbers...] as list (list cell * list Z); ok=false if malformed.
func c16CoqStatRows(rows [][]interface{}, nstats int) (string, bool) {
	parts := make([]string, 0, len(rows))
	for _, row := range rows {
		if len(row) < nstats {
			return "[]", false
		}
		nkeys := len(row) - nstats
		nums := make([]string, 0, nstats)
		for _, v := range row[nkeys:] {
			txt, ok := c16Micro(v)
			if !ok {
				return "[]", false
			}
			nums = append(nums, txt)
		}
		parts = append(parts, fmt.Sprintf("(%s, %s)", c16CoqRow(row[:nkeys]), coqList(nums)))
	}

	return coqList(parts), true
}

func c16CoqOptNat(v *int) string {
	if v == nil {
		return "None"
	}

	return fmt.Sprintf("(Some %d%%nat)", *v)
}

func c16CoqSchema() string {
	parts := []string{}
	for _, c := range c16Schema() {
		if c.virtual {
			parts = append(parts, fmt.Sprintf("(%s, SVirtual %s)", coqStr(c.name), c.vkind))
		} else {
			parts = append(parts, fmt.Sprintf("(%s, SBackend %s)", coqStr(c.name), c.ctype))
		}
	}

	return coqList(parts)
}

func c16Coq(idx int, in *c16Input, obs *c16Obs) string {
	var sb strings.Builder
	sorts := []string{}
	for _, s := range in.Sort {
		sorts = append(sorts, fmt.Sprintf("(%s, %s)", coqStr(strings.ToLower(s.Col)), coqBool(s.Desc)))
	}
	kinds := []string{}
	for _, s := range in.Stats {
		kinds = append(kinds, c16StatKind(s))
	}
	fmt.Fprintf(&sb, "Definition q%d : request := mkReq %s %s %s %d%%nat %s %s %s %s %s.\n", idx,
		coqStrList(in.Columns), coqList(sorts), c16CoqOptNat(in.Limit), in.Offset, coqList(kinds),
		coqStrList(obs.CFilter), coqStrList(obs.CStats), coqStr(in.AuthUser), coqStrList(in.Select))
	backends := []string{}
	subs := []string{}
	for i := range in.Backends {
		bin := &in.Backends[i]
		up := bin.State == "up" || bin.State == "warning"
		matched := [][]interface{}{}
		if i < len(obs.Matched) {
			matched = obs.Matched[i]
		}
		reply := "[]"
		sub := "SubNone"
		if i < len(obs.Subs) {
			so := &obs.Subs[i]
			switch {
			case so.Count == 0:
			case so.Count != 1 || so.Bad != "" || so.Table != "log" || so.Other:
				sub = "SubBad"
			default:
				sub = fmt.Sprintf("SubQ (mkSub %s %s %s %s %s)", coqStrList(so.Cols), coqStrList(so.Filter),
					coqStrList(so.Stats), c16CoqOptNat(so.Limit), coqStr(so.Auth))
				if len(in.Stats) > 0 {
					txt, ok := c16CoqStatRows(so.Reply, len(in.Stats))
					if !ok {
						sub = "SubBad"
					}
					reply = txt
				}
			}
		}
		backends = append(backends, fmt.Sprintf("mkBackend %s %s %s %s %s", coqStr(bin.Key), coqStr(bin.Name), coqBool(up),
			c16CoqRows(matched), reply))
		subs = append(subs, sub)
	}
	var observed string
	switch {
	case obs.Crash != "":
		observed = "ObsCrash"
	case obs.Err != "" || obs.ParseErr != "":
		observed = "ObsError"
	default:
		failed := "None"
		if obs.HasFail {
			keys := make([]string, 0, len(obs.Failed))
			for k := range obs.Failed {
				keys = append(keys, k)
			}
			sort.Strings(keys)
			failed = "(Some " + coqStrList(keys) + ")"
		}
		header := "None"
		if obs.HasHdr {
			header = "(Some " + coqStrList(obs.Header) + ")"
		}
		if len(in.Stats) > 0 {
			txt, ok := c16CoqStatRows(obs.Rows, len(in.Stats))
			if !ok {
				observed = "ObsError"
			} else {
				observed = fmt.Sprintf("ObsStats %s %s", txt, failed)
			}
		} else {
			total := "None"
			if obs.HasFail {
				total = fmt.Sprintf("(Some %d%%nat)", obs.Total)
			}
			observed = fmt.Sprintf("ObsRows %s %s %s %s", c16CoqRows(obs.Rows), failed, header, total)
		}
	}
	fmt.Fprintf(&sb, "Definition c%d : case := mkCase sch q%d %s %s (%s).\n", idx, idx, coqList(backends), coqList(subs), observed)

	return sb.String()
}

// ---- generator ---------------------------------------------------------------------------------

var (
	c16DataCols   = []string{"time", "type", "message", "host_name", "state", "class", "service_description", "plugin_output", "current_host_contacts"}
	c16ReqBackend = []string{"time", "type", "message", "host_name", "state", "class", "service_description", "plugin_output",
		"current_host_contacts", "lineno", "attempt", "log_time", "log_type"}
	c16ReqVirtual = []string{"peer_key", "peer_name", "nosuchcolumn", "peer_key", "peer_name"}
	c16SortCols   = []string{"time", "type", "host_name", "state", "class", "message", "peer_key", "peer_name", "Time", "STATE"}
	c16Types      = []string{"HOST ALERT", "SERVICE ALERT", "HOST NOTIFICATION", "EXTERNAL COMMAND", "Zürich alert", "alert"}
	c16Hosts      = []string{"db.prod", "Web1", "web1", "a", "", "日本", "b b"}
	c16Keys       = []string{"ka", "kb", "site-c", "K4", "k.5", "zz"}
	c16Names      = []string{"Alpha", "beta site", "Ünicode", "d", "alpha", "omega"}
	c16GroupCols  = []string{"type", "host_name", "state", "class", "peer_key", "peer_name", "service_description"}
	c16StatsPool  = []string{"state = 0", "state != 0", "class = 1", "type ~ ALERT", "host_name = web1", "state >= 1",
		"sum state", "sum class", "avg state", "min state", "max state", "max class", "min time", "max time"}
	c16FilterPool = []string{"Filter: state = 0", "Filter: state != 2", "Filter: class >= 1", "Filter: type ~ ALERT", "Filter: host_name = web1",
		"Filter: host_name != a", "Filter: time >= 1700000100", "Filter: time < 1700000300", "Filter: message ~ out", "Filter: type = HOST ALERT",
		"Filter: host_name =", "Filter: current_host_contacts >= admin"}
)

func c16GenRows(rnd *vRand, n int) [][]interface{} {
	rows := make([][]interface{}, 0, n)
	for range n {
		state := float64(rnd.intn(4))
		contacts := []interface{}{}
		for _, c := range []string{"admin", "oper"} {
			if rnd.chance(1, 3) {
				contacts = append(contacts, c)
			}
		}
		host := vPick(rnd, c16Hosts)
		typ := vPick(rnd, c16Types)
		tm := float64(1700000000 + rnd.intn(40)*10)
		if rnd.chance(1, 12) {
			tm = float64(rnd.intn(3))
		}
		rows = append(rows, []interface{}{
			tm, typ, fmt.Sprintf("[%d] %s: %s;out%d", int64(tm), typ, host, rnd.intn(50)), host, state, float64(rnd.intn(6)),
			vPick(rnd, []string{"", "ping", "Disk /", "http"}), fmt.Sprintf("out %d", rnd.intn(5)), contacts,
		})
	}

	return rows
}

func c16Gen(rnd *vRand) *c16Input {
	in := &c16Input{Cols: c16DataCols, Format: "json"}
	nb := 1 + rnd.intn(4)
	perm := []int{0, 1, 2, 3, 4, 5}
	for i := len(perm) - 1; i > 0; i-- {
		j := rnd.intn(i + 1)
		perm[i], perm[j] = perm[j], perm[i]
	}
	sizes := []int{0, 1, 2, 3, 5, 7, 9, 12}
	used := map[int]bool{}
	for i := range nb {
		state := "up"
		switch rnd.intn(10) {
		case 0:
			state = "down"
		case 1:
			state = "refuse"
		case 2:
			state = "warning"
		}
		// distinct row counts per backend, so that counters differ between the backends
		size := vPick(rnd, sizes)
		for used[size] {
			size = vPick(rnd, sizes)
		}
		used[size] = true
		in.Backends = append(in.Backends, c16BackendIn{Key: c16Keys[perm[i]], Name: c16Names[perm[(i+1)%6]], State: state, Rows: c16GenRows(rnd, size)})
	}
	if rnd.chance(1, 2) {
		in.Format = "wrapped_json"
	}
	if rnd.chance(1, 8) {
		for i := range in.Backends {
			if rnd.chance(2, 3) {
				in.Select = append(in.Select, in.Backends[i].Key)
			}
		}
	}
	for range rnd.intn(3) {
		if rnd.chance(1, 2) {
			in.Filter = append(in.Filter, vPick(rnd, c16FilterPool))
		}
	}
	if len(in.Filter) == 2 && rnd.chance(1, 3) {
		in.Filter = append(in.Filter, vPick(rnd, []string{"Or: 2", "And: 2"}))
		if rnd.chance(1, 3) {
			in.Filter = append(in.Filter, "Negate:")
		}
	}
	if rnd.chance(1, 10) {
		in.AuthUser = vPick(rnd, []string{"admin", "oper"})
	}
	if rnd.chance(3, 10) {
		// stats query, with or without group-by columns
		for range 1 + rnd.intn(4) {
			in.Stats = append(in.Stats, vPick(rnd, c16StatsPool))
		}
		if rnd.chance(1, 2) {
			for range 1 + rnd.intn(3) {
				in.Columns = append(in.Columns, vPick(rnd, c16GroupCols))
			}
		}
		if rnd.chance(1, 6) {
			limit := 1 + rnd.intn(20)
			in.Limit = &limit
		}

		return in
	}
	if !rnd.chance(1, 12) {
		for range 1 + rnd.intn(6) {
			if rnd.chance(2, 3) {
				in.Columns = append(in.Columns, vPick(rnd, c16ReqBackend))
			} else {
				in.Columns = append(in.Columns, vPick(rnd, c16ReqVirtual))
			}
		}
		if rnd.chance(1, 5) {
			// duplicate of a requested column
			in.Columns = append(in.Columns, vPick(rnd, in.Columns))
		}
	}
	if rnd.chance(3, 5) {
		for range 1 + rnd.intn(3) {
			col := vPick(rnd, c16SortCols)
			if len(in.Columns) > 0 && rnd.chance(1, 2) {
				// prefer a key inside the column list
				cand := strings.TrimPrefix(vPick(rnd, in.Columns), "log_")
				for _, s := range c16SortCols {
					if s == cand {
						col = cand
					}
				}
			}
			in.Sort = append(in.Sort, c16SortIn{Col: col, Desc: rnd.chance(1, 2)})
		}
	}
	if rnd.chance(1, 3) {
		limit := rnd.intn(12)
		in.Limit = &limit
	}
	if rnd.chance(1, 8) {
		in.Offset = 1 + rnd.intn(6)
	}
	in.Headers = rnd.chance(1, 8)

	return in
}

func c16Main(args []string) int {
	flags := verifParseStreamFlags("c16passthrough", args)
	meta := newVMeta("passthrough", "generated: 1..4 real peers (up/warning/down/refusing) against scripted backends with distinct numbers of log rows; "+
		"GET log with column lists mixing backend and LMD-side columns (duplicates, unknown names, log_ prefix), 0..3 sort keys inside or outside "+
		"the column list, Limit/Offset, Filter lines, Stats with and without group-by columns, json/wrapped_json, Backends subsets. "+
		"non-trivial: at least two backends selected and at least one reachable; distinct by input")
	inputs := []*c16Input{}
	if flags.replay != "" {
		vReadReplay(flags.replay, &inputs)
	} else {
		rnd := newVRand(flags.seed)
		for range flags.n {
			inputs = append(inputs, c16Gen(rnd.fork()))
		}
	}
	observations := c16RunAll(inputs)

	var sb strings.Builder
	sb.WriteString("From LMD Require Import C16.Run.\nOpen Scope N_scope.\n")
	sb.WriteString("Definition sch : schema := " + c16CoqSchema() + ".\n")
	names := []string{}
	for i, in := range inputs {
		obs := observations[i]
		sb.WriteString(c16Coq(i, in, obs))
		names = append(names, fmt.Sprintf("c%d", i))
		up := 0
		for _, b := range in.Backends {
			if b.State == "up" || b.State == "warning" {
				up++
			}
		}
		meta.count(fmt.Sprintf("backends=%d", len(in.Backends)))
		meta.count(fmt.Sprintf("reachable=%d", up))
		meta.count("format=" + in.Format)
		switch {
		case len(in.Stats) > 0 && len(in.Columns) > 0:
			meta.count("kind=stats-grouped")
		case len(in.Stats) > 0:
			meta.count("kind=stats")
		case len(in.Columns) == 0:
			meta.count("kind=rows-all-columns")
		default:
			meta.count("kind=rows")
		}
		outside, virt := false, false
		for _, s := range in.Sort {
			found := false
			for _, c := range in.Columns {
				if strings.TrimPrefix(c, "log_") == strings.ToLower(s.Col) {
					found = true
				}
			}
			outside = outside || !found
		}
		for _, c := range in.Columns {
			virt = virt || strings.HasPrefix(c, "peer_") || c == "nosuchcolumn"
		}
		if len(in.Sort) > 0 {
			meta.count("sort=" + map[bool]string{true: "outside-columns", false: "inside-columns"}[outside && len(in.Columns) > 0])
		} else {
			meta.count("sort=none")
		}
		meta.count("virtual-columns=" + strconv.FormatBool(virt))
		meta.count("limit=" + strconv.FormatBool(in.Limit != nil))
		meta.count("offset=" + strconv.FormatBool(in.Offset > 0))
		meta.count("filter=" + strconv.FormatBool(len(in.Filter) > 0))
		switch {
		case obs.Crash != "":
			meta.count("outcome=crash")
		case obs.Err != "" || obs.ParseErr != "":
			meta.count("outcome=error")
		default:
			meta.count("outcome=response")
		}
		key, _ := json.Marshal(in)
		meta.add(string(key), len(in.Backends) >= 2 && up >= 1, in)
	}
	sb.WriteString("Definition cases : list case := " + coqList(names) + ".\n")
	sb.WriteString("Definition M := Eval vm_compute in mismatches cases.\nPrint M.\nDefinition SK := Eval vm_compute in skipped_count cases.\nPrint SK.\n")
	if err := os.WriteFile(flags.out, []byte(sb.String()), 0o644); err != nil {
		panic(err)
	}
	meta.write(flags.meta)
	if verifEnv("C16_DEBUG", "") != "" {
		for i, obs := range observations {
			buf, _ := json.Marshal(obs)
			fmt.Fprintf(os.Stderr, "case %d: %s%s\n", i, inputs[i].text(), buf)
		}
	}

	return 0
}
