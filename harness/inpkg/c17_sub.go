//go:build verif

package lmd

import (
	"bufio"
	"context"
	"encoding/json"
	"fmt"
	"math"
	"os"
	"sort"
	"strconv"
	"strings"
)

// C17, second stream: the cluster sub-request form of a parsed request.
//
//	text --NewRequest(mode)--> req --buildDistributedRequestData--> map --json--> map
//	     --parseRequestDataToRequest--> rt --NewResponse/Buffer--> answer of the partner node
//
// The answer is compared (in Coq, C17/RunSub.v) with the model's answer to the request the
// sub-request is supposed to mean. That request is written here as header lines derived from
// the ORIGINAL text only (c17subMeant), never from req or rt.

const c17subRule = "generated requests (qe generator: every operator x column type, nested negated groups, empty values, custom variable terms and sort keys, " +
	"Stats counters/aggregates incl. grouped blocks and group-by columns, Sort incl. keys outside Columns, Limit/Offset, default order with a small window " +
	"over 1-3 backends with interleaving names, AuthUser) parsed in both modes, turned into the cluster sub-request (buildDistributedRequestData), sent through JSON, " +
	"read back with parseRequestDataToRequest and answered by NewResponse/Buffer on a daemon loaded by the importer; expected = the model's answer to the " +
	"original headers with Columns + missing sort columns, Offset dropped, Limit+Offset, wrapped_json, all backends; Stats requests: raw (sum, count) pairs per group key. " +
	"non-trivial: the original text is accepted and has more than two lines"

func init() {
	verifRegister("c17sub", "C17: round trip of the cluster sub-request form (buildDistributedRequestData / parseRequestDataToRequest)", c17subMain)
}

// c17subObs is the canonicalised answer to the sub-request.
type c17subObs struct {
	kind   string // none (original text rejected) | data | raw | error
	code   int
	rows   []string
	total  int
	failed []string
	detail string
}

func (o *c17subObs) coq() string {
	switch o.kind {
	case "none":
		return "SubPlain (OError 400)"
	case "data":
		return fmt.Sprintf("SubPlain (OData [%s] (Some %d%%nat) %s)", strings.Join(o.rows, ";\n    "), o.total, coqStrList(o.failed))
	case "raw":
		return fmt.Sprintf("SubRaw [%s] %s", strings.Join(o.rows, ";\n    "), coqStrList(o.failed))
	}

	return fmt.Sprintf("SubPlain (OError %d)", o.code)
}

// c17subMeant derives, from the text of the original request alone, the header lines of the request
// the sub-request has to mean: same table, Filter/Stats/Sort/AuthUser lines unchanged, Columns = the
// original columns followed by the sort columns not among them (data requests only), no Offset,
// Limit = Limit+Offset, wrapped_json, no Backends header (all backends). cols are the columns of the
// answer rows (data requests) resp. the group-by columns (Stats requests).
func c17subMeant(lines []string) (meant, cols []string, isStats bool, appended int) {
	if len(lines) == 0 {
		return nil, nil, false, 0
	}
	meant = []string{lines[0]}
	var table *Table
	if f := strings.Fields(lines[0]); len(f) == 2 && f[0] == "GET" {
		if tn, err := NewTableName(f[1]); err == nil {
			table = Objects.Tables[tn]
		}
	}
	kept := []string{}
	sortNames := []string{}
	limit, offset := -1, 0
	var badLimit []string
	for _, line := range lines[1:] {
		head, arg, found := strings.Cut(strings.TrimSpace(line), ":")
		if !found {
			kept = append(kept, line)

			continue
		}
		arg = strings.TrimLeft(arg, " ")
		switch strings.ToLower(head) {
		case "columns":
			cols = append(cols, strings.Fields(arg)...)
		case "sort":
			kept = append(kept, line)
			sortNames = append(sortNames, strings.ToLower(strings.SplitN(arg, " ", 3)[0]))
		case "limit":
			n, err := strconv.Atoi(arg)
			if err != nil || n < 0 {
				badLimit = append(badLimit, line) // rejected by lmd and by the model
			} else {
				limit = n
			}
		case "offset":
			n, err := strconv.Atoi(arg)
			if err != nil || n < 0 {
				badLimit = append(badLimit, line)
			} else {
				offset = n
			}
		case "outputformat", "backends", "columnheaders", "keepalive", "responseheader", "localtime":
			// not part of the sub-request's meaning
		case "stats", "statsand", "statsor":
			isStats = true
			kept = append(kept, line)
		default:
			kept = append(kept, line)
		}
	}
	if !isStats && table != nil {
		// distributedSortColumns: sort keys whose column is not among the requested columns travel behind them
		have := []*Column{}
		for _, c := range cols {
			have = append(have, table.GetColumnWithFallback(c))
		}
		for _, name := range sortNames {
			col := table.GetColumn(name)
			if col == nil {
				continue // unknown sort column: the original is rejected
			}
			known := false
			for _, h := range have {
				if h == col {
					known = true
				}
			}
			if !known {
				have = append(have, col)
				cols = append(cols, name)
				appended++
			}
		}
	}
	if len(cols) > 0 {
		meant = append(meant, "Columns: "+strings.Join(cols, " "))
	}
	meant = append(meant, kept...)
	meant = append(meant, badLimit...)
	if limit >= 0 {
		meant = append(meant, fmt.Sprintf("Limit: %d", limit+offset))
	}
	meant = append(meant, "OutputFormat: wrapped_json")

	return meant, cols, isStats, appended
}

// c17subRun builds the sub-request of the text, sends it through JSON and answers it like http.go queryTable does.
func c17subRun(lmd *Daemon, ds *qeDataset, text string, optimize bool, cols []string, isStats bool) (obs *c17subObs, wire string) {
	obs = &c17subObs{kind: "error", code: 997}
	defer func() {
		if r := recover(); r != nil {
			obs = &c17subObs{kind: "error", code: 999, detail: fmt.Sprintf("panic: %v", r)}
		}
	}()
	mode := ParseDefault
	if optimize {
		mode = ParseOptimize
	}
	ctx := context.Background()
	req, _, err := NewRequest(ctx, lmd, bufio.NewReader(strings.NewReader(text)), mode)
	if err != nil || req == nil {
		return &c17subObs{kind: "none"}, ""
	}
	ids := []string{}
	for _, bk := range ds.Backends {
		ids = append(ids, bk.Key)
	}
	// what nodes.SendQuery puts on the wire ...
	raw, err := json.Marshal(req.buildDistributedRequestData(ids))
	if err != nil {
		return &c17subObs{kind: "error", code: 996, detail: err.Error()}, ""
	}
	wire = string(raw)
	// ... and what the /query handler of the partner node reads
	requestData := make(map[string]interface{})
	if err = json.Unmarshal(raw, &requestData); err != nil {
		return &c17subObs{kind: "error", code: 996, detail: err.Error()}, wire
	}
	if _, err = NewTableName(interface2stringNoDedup(requestData["table"])); err != nil {
		return &c17subObs{kind: "error", code: 995, detail: err.Error()}, wire
	}
	rt, err := parseRequestDataToRequest(lmd, requestData)
	if err != nil {
		return &c17subObs{kind: "error", code: 995, detail: err.Error()}, wire
	}
	if err = rt.ExpandRequestedBackends(); err != nil {
		return &c17subObs{kind: "error", code: 995, detail: err.Error()}, wire
	}
	if d, exists := requestData["distributed"]; !exists || !interface2bool(d) {
		// the partner node would distribute the request again
		return &c17subObs{kind: "error", code: 994, detail: "sub request not marked as distributed"}, wire
	}
	res, _, err := NewResponse(ctx, rt, nil)
	if err != nil {
		return &c17subObs{kind: "error", code: 500, detail: err.Error()}, wire
	}
	buf, err := res.Buffer()
	if err != nil {
		return &c17subObs{kind: "error", code: 500, detail: err.Error()}, wire
	}

	return c17subParse(buf.Bytes(), req.Table, cols, isStats), wire
}

// c17subParse decodes the wrapped_json body. The cell types come from the columns expected from the original text.
func c17subParse(body []byte, tn TableName, cols []string, isStats bool) *c17subObs {
	obs := &c17subObs{}
	var wrapped struct {
		Data       []json.RawMessage `json:"data"`
		Failed     map[string]string `json:"failed"`
		TotalCount *int              `json:"total_count"`
	}
	if err := json.Unmarshal(body, &wrapped); err != nil || wrapped.TotalCount == nil || wrapped.Failed == nil {
		// not the wrapped form the requesting node reads (hash with data / failed / total_count)
		return &c17subObs{kind: "error", code: 998, detail: "not a wrapped_json answer: " + string(body)}
	}
	obs.total = *wrapped.TotalCount
	for k := range wrapped.Failed {
		obs.failed = append(obs.failed, k)
	}
	sort.Strings(obs.failed)
	table := Objects.Tables[tn]
	if isStats {
		obs.kind = "raw"
		for _, rawRow := range wrapped.Data {
			var cells []json.RawMessage
			if json.Unmarshal(rawRow, &cells) != nil {
				return &c17subObs{kind: "error", code: 998, detail: "row is not a list: " + string(rawRow)}
			}
			keys := []string{}
			vals := []string{}
			for i, c := range cells {
				if i < len(cols) {
					var s string
					if json.Unmarshal(c, &s) != nil {
						s = string(c)
					}
					keys = append(keys, s)

					continue
				}
				// mergeDistributedResponse reads index 0 (sum) and index 1 (count) of each cell
				var pair []float64
				if json.Unmarshal(c, &pair) != nil || len(pair) != 2 || pair[1] != math.Trunc(pair[1]) {
					return &c17subObs{kind: "error", code: 998, detail: "stats cell is not a [sum, count] pair: " + string(c)}
				}
				vals = append(vals, fmt.Sprintf("(%s%%Z, %s%%Z)", coqZ(int64(math.Round(pair[0]*1e6))), coqZ(int64(pair[1]))))
			}
			obs.rows = append(obs.rows, fmt.Sprintf("(%s, %s)", coqStrList(keys), coqList(vals)))
		}

		return obs
	}
	obs.kind = "data"
	for _, rawRow := range wrapped.Data {
		var cells []json.RawMessage
		if json.Unmarshal(rawRow, &cells) != nil {
			return &c17subObs{kind: "error", code: 998, detail: "row is not a list: " + string(rawRow)}
		}
		parts := []string{}
		for i, c := range cells {
			dt := StringCol
			if i < len(cols) {
				dt = table.GetColumnWithFallback(cols[i]).DataType
			}
			parts = append(parts, qeCell(dt, c))
		}
		obs.rows = append(obs.rows, coqList(parts))
	}

	return obs
}

// c17subCustomVarSort makes a custom variable the leading sort key of some hosts / services data requests
// (the variable name is an argument of the Sort header which has to travel with it).
func c17subCustomVarSort(r *vRand, lines []string, meta *vMeta) []string {
	if !r.chance(1, 5) || (lines[0] != "GET hosts" && lines[0] != "GET services") {
		return lines
	}
	at := len(lines)
	for i, l := range lines {
		switch {
		case strings.HasPrefix(l, "Stats"), l == "Sort: name asc", l == "Sort: host_name asc":
			return lines // Stats request or the table's default order
		case strings.HasPrefix(l, "Sort:") && i < at:
			at = i
		}
	}
	col := "custom_variables"
	if lines[0] == "GET services" && r.chance(1, 2) {
		col = "host_custom_variables"
	}
	key := fmt.Sprintf("Sort: %s %s %s", col, vPick(r, qeCVNames), vPick(r, []string{"asc", "desc"}))
	meta.count("sort:leading-custom-variable")
	res := append([]string{}, lines[:at]...)
	res = append(res, key)

	return append(res, lines[at:]...)
}

func c17subMain(args []string) int {
	flags := verifParseStreamFlags("c17sub", args)
	meta := newVMeta("c17sub", c17subRule)
	inputs := []*qeInput{}
	if flags.replay != "" {
		vReadReplay(flags.replay, &inputs)
		for _, in := range inputs {
			if in.DS != nil {
				in.DS.fixTypes()
			}
		}
	} else {
		rnd := newVRand(flags.seed)
		for len(inputs) < flags.n {
			ds := qeGenDataset(rnd.fork(), 3, 8)
			if len(ds.Backends) < 2 {
				// mostly several backends: the partner node has to merge them before it cuts its part
				ds = qeGenDataset(rnd.fork(), 3, 8)
			}
			gen := &qeGen{r: rnd.fork(), ds: ds, pFilter: 85, pStats: 35, pSort: 55, pLimit: 45, pAuth: 15, pBackends: 0, pWrapped: 30,
				pGrouped: 25, pIndexLeaf: 10, maxDepth: 3, pCutoff: 25, tables: qeAllTables, hist: meta.Histogram}
			svcStrict, grpStrict := rnd.chance(1, 4), rnd.chance(3, 4)
			extra := rnd.fork()
			for q := 0; q < 10 && len(inputs) < flags.n; q++ {
				lines := c17subCustomVarSort(extra, strings.Split(strings.TrimRight(gen.request(), "\n"), "\n"), meta)
				inputs = append(inputs, &qeInput{DS: ds, Lines: lines, Optimize: false, SvcStrict: svcStrict, GrpStrict: grpStrict},
					&qeInput{DS: ds, Lines: lines, Optimize: true, SvcStrict: svcStrict, GrpStrict: grpStrict})
			}
		}
		inputs = inputs[:flags.n]
	}
	var sb strings.Builder
	sb.WriteString("From LMD Require Import C17.RunSub.\nOpen Scope N_scope.\nOpen Scope string_scope.\n")
	names := []string{}
	var lastDS *qeDataset
	var lmd *Daemon
	dsName := ""
	dsCount := 0
	for i, in := range inputs {
		names = append(names, fmt.Sprintf("c%d", i))
		if in.DS != lastDS || lastDS == nil {
			lastDS = in.DS
			dsName = fmt.Sprintf("d%d", dsCount)
			dsCount++
			var err error
			lmd, err = qeLoad(in.DS, qeWorkDir())
			if err != nil {
				lmd = nil
			} else {
				sb.WriteString(in.DS.coq(dsName))
			}
		}
		if lmd == nil || len(in.Lines) == 0 {
			// not a loadable snapshot (only produced by shrinking): trivially agreeing case
			fmt.Fprintf(&sb, "Definition c%d : scase := mkS (mkCfg false true) [] true [] [] (SubPlain (OError 400)).\n", i)
			meta.add(fmt.Sprintf("invalid%d", i), false, in)

			continue
		}
		lmd.Config.ServiceAuthorization = AuthLoose
		if in.SvcStrict {
			lmd.Config.ServiceAuthorization = AuthStrict
		}
		lmd.Config.GroupAuthorization = AuthLoose
		if in.GrpStrict {
			lmd.Config.GroupAuthorization = AuthStrict
		}
		text := strings.Join(in.Lines, "\n") + "\n\n"
		meant, cols, isStats, appended := c17subMeant(in.Lines)
		obs, wire := c17subRun(lmd, in.DS, text, in.Optimize, cols, isStats)
		orig := []string{}
		for _, l := range in.Lines {
			orig = append(orig, coqStr(l))
		}
		mlines := []string{}
		for _, l := range meant {
			mlines = append(mlines, coqStr(l))
		}
		comment := strings.NewReplacer("(*", "( *", "*)", "* )", "\"", "'")
		if obs.detail != "" {
			fmt.Fprintf(&sb, "(* %s *)\n", comment.Replace(obs.detail))
		}
		if wire != "" {
			fmt.Fprintf(&sb, "(* sub request: %s *)\n", comment.Replace(wire))
		}
		fmt.Fprintf(&sb, "Definition c%d : scase := mkS (mkCfg %s %s) %s %s %s\n  %s\n  (%s).\n", i, coqBool(in.SvcStrict), coqBool(in.GrpStrict),
			dsName, coqBool(in.Optimize), coqList(orig), coqList(mlines), obs.coq())
		meta.count("answer:" + obs.kind)
		if obs.kind == "error" {
			meta.count(fmt.Sprintf("error:%d", obs.code))
		}
		if obs.kind == "data" {
			meta.count("rows:" + qeBucket(len(obs.rows)))
			if appended > 0 {
				meta.count("sort-columns-appended")
			}
			if strings.Contains(text, "\nLimit:") {
				meta.count("limited")
				if obs.total > len(obs.rows) {
					meta.count("limited:cut")
				}
			}
		}
		if obs.kind == "raw" {
			meta.count("groups:" + qeBucket(len(obs.rows)))
		}
		meta.add(text+fmt.Sprintf("|%p|%v", in.DS, in.Optimize), obs.kind != "none" && obs.kind != "error" && len(in.Lines) > 2, in)
	}
	sb.WriteString("Definition cases : list scase := " + coqList(names) + ".\n")
	sb.WriteString("Definition M := Eval vm_compute in mismatches cases.\nPrint M.\n")
	sb.WriteString("Definition SK := Eval vm_compute in skipped cases.\nPrint SK.\n")
	if err := os.WriteFile(flags.out, []byte(sb.String()), 0o644); err != nil {
		panic(err)
	}
	meta.write(flags.meta)

	return 0
}
