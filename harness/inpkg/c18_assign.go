//go:build verif

package lmd

import (
	"context"
	"fmt"
	"os"
	"sort"
	"strings"
	"time"
)

// c18Input is one history of membership changes seen by node `Own`.
type c18Input struct {
	Nodes    int      `json:"nodes"`
	Own      int      `json:"own"`
	Backends []string `json:"backends"`
	Hist     [][]bool `json:"hist"`
}

type c18Obs struct {
	perNode [][]string
	mine    []string
	running []string
}

func init() {
	verifRegister("c18assign", "C18: run Nodes.redistribute on enumerated/generated membership histories", c18AssignMain)
}

// c18RunCase drives the real Nodes object through the membership history.
func c18RunCase(in *c18Input) []c18Obs {
	lmd := verifNewDaemon()
	lmd.Config.Connections = nil
	for _, id := range in.Backends {
		conn := Connection{ID: id, Name: id, Source: []string{"/nonexistent/verif-" + id + ".sock"}}
		lmd.Config.Connections = append(lmd.Config.Connections, conn)
	}
	for i := range lmd.Config.Connections {
		conn := &lmd.Config.Connections[i]
		lmd.PeerMap[conn.ID] = NewPeer(lmd, conn)
		lmd.PeerMapOrder = append(lmd.PeerMapOrder, conn.ID)
	}
	addrs := make([]string, 0, in.Nodes)
	for i := range in.Nodes {
		addrs = append(addrs, fmt.Sprintf("http://127.0.0.%d:8901", i+1))
	}
	nodes := NewNodes(lmd, addrs, "http://127.0.0.1:8901")
	lmd.nodeAccessor = nodes
	for i, na := range nodes.nodeAddresses {
		na.id = fmt.Sprintf("n%d", i)
		na.isMe = i == in.Own
	}
	nodes.thisNode = nodes.nodeAddresses[in.Own]
	ctx := context.Background()

	obs := make([]c18Obs, 0, len(in.Hist))
	for _, online := range in.Hist {
		list := NodeAddressList{}
		for i, on := range online {
			if on {
				list = append(list, nodes.nodeAddresses[i])
			}
		}
		nodes.lock.Lock()
		nodes.onlineNodes = list
		nodes.lock.Unlock()
		nodes.redistribute(ctx)

		o := c18Obs{}
		for i := range in.Nodes {
			o.perNode = append(o.perNode, append([]string{}, nodes.nodeBackends[fmt.Sprintf("n%d", i)]...))
		}
		// what this node answers for: IsOurBackend over all configured backends
		for _, id := range in.Backends {
			if nodes.IsOurBackend(id) {
				o.mine = append(o.mine, id)
			}
		}
		// wait for stopped update loops to settle, then read the running set
		deadline := time.Now().Add(5 * time.Second)
		for {
			running := []string{}
			settled := true
			for _, id := range in.Backends {
				peer := lmd.PeerMap[id]
				if !peer.paused.Load() {
					running = append(running, id)
					if !nodes.IsOurBackend(id) {
						settled = false
					}
				}
			}
			if settled || time.Now().After(deadline) {
				sort.Strings(running)
				o.running = running

				break
			}
			time.Sleep(time.Millisecond)
		}
		obs = append(obs, o)
	}
	for _, id := range in.Backends {
		lmd.PeerMap[id].Stop()
	}

	return obs
}

func c18Coq(idx int, in *c18Input, obs []c18Obs) string {
	hist := make([]string, 0, len(in.Hist))
	for _, h := range in.Hist {
		hist = append(hist, coqBoolList(h))
	}
	os := make([]string, 0, len(obs))
	for _, o := range obs {
		per := make([]string, 0, len(o.perNode))
		for _, l := range o.perNode {
			per = append(per, coqStrList(l))
		}
		os = append(os, fmt.Sprintf("(%s, %s, %s)", coqList(per), coqStrList(o.mine), coqStrList(o.running)))
	}

	return fmt.Sprintf("Definition c%d : case := mkCase %d %s %s %s.\n", idx, in.Own, coqStrList(in.Backends), coqList(hist), coqList(os))
}

func c18BackendNames(n int) []string {
	pool := []string{"a", "b1", "site-c", "D", "e.x", "zürich", "g", "h", "i9", "j", "k", "l"}
	return append([]string{}, pool[:n]...)
}

func c18AssignMain(args []string) int {
	flags := verifParseStreamFlags("c18assign", args)
	meta := newVMeta("assign", "exhaustive: all cluster shapes (nodes x backends) x all non-empty online subsets x every online node as 'own', one redistribute each; plus generated histories of 2..6 membership changes on one node. non-trivial: at least 2 nodes and 1 backend; distinct by input")
	inputs := []*c18Input{}
	if flags.replay != "" {
		vReadReplay(flags.replay, &inputs)
	} else {
		maxNodes, maxBackends := 4, 8
		if flags.tier == "thorough" {
			maxNodes, maxBackends = 6, 12
		}
		for nn := 1; nn <= maxNodes; nn++ {
			for nb := 0; nb <= maxBackends; nb++ {
				for mask := 1; mask < 1<<nn; mask++ {
					online := make([]bool, nn)
					for i := range nn {
						online[i] = mask&(1<<i) != 0
					}
					for own := range nn {
						if !online[own] {
							continue
						}
						inputs = append(inputs, &c18Input{Nodes: nn, Own: own, Backends: c18BackendNames(nb), Hist: [][]bool{online}})
					}
				}
			}
		}
		meta.Exhaustive = true
		rnd := newVRand(flags.seed)
		for range flags.n {
			nn := 1 + rnd.intn(maxNodes)
			nb := rnd.intn(maxBackends + 1)
			own := rnd.intn(nn)
			steps := 2 + rnd.intn(5)
			hist := [][]bool{}
			for range steps {
				online := make([]bool, nn)
				for i := range nn {
					online[i] = i == own || rnd.chance(2, 3)
				}
				hist = append(hist, online)
			}
			inputs = append(inputs, &c18Input{Nodes: nn, Own: own, Backends: c18BackendNames(nb), Hist: hist})
		}
	}

	var sb strings.Builder
	sb.WriteString("From LMD Require Import C18.Run.\nOpen Scope N_scope.\nOpen Scope string_scope.\n")
	names := []string{}
	for i, in := range inputs {
		obs := c18RunCase(in)
		sb.WriteString(c18Coq(i, in, obs))
		names = append(names, fmt.Sprintf("c%d", i))
		meta.count(fmt.Sprintf("nodes=%d", in.Nodes))
		meta.count(fmt.Sprintf("backends=%d", len(in.Backends)))
		meta.count(fmt.Sprintf("steps=%d", len(in.Hist)))
		meta.add(fmt.Sprintf("%v", *in), in.Nodes >= 2 && len(in.Backends) >= 1, in)
	}
	sb.WriteString("Definition cases : list case := " + coqList(names) + ".\n")
	sb.WriteString("Definition M := Eval vm_compute in mismatches cases.\nPrint M.\n")
	if err := os.WriteFile(flags.out, []byte(sb.String()), 0o644); err != nil {
		panic(err)
	}
	meta.write(flags.meta)

	return 0
}
