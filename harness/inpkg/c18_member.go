//go:build verif

package lmd

import (
	"context"
	"encoding/json"
	"fmt"
	"net"
	"net/http"
	"os"
	"strings"
	"sync"
	"sync/atomic"
)

// c18Reply is one scripted answer of a partner node to a ping:
// kind "none" (HTTP 503, SendQuery fails), "garbage" (200, JSON that is not an object), "pong".
type c18Reply struct {
	Kind  string `json:"kind"`
	Ident string `json:"ident,omitempty"`
	VerOK bool   `json:"ver_ok,omitempty"`
	NoVer bool   `json:"no_ver,omitempty"` // pong without a version field (counts as mismatch)
	Peers bool   `json:"peers,omitempty"`  // pong carries a peers list
}

// c18MemberInput is a history of ping rounds seen by the node with identifier OwnID.
type c18MemberInput struct {
	Nodes    int          `json:"nodes"`
	OwnID    string       `json:"own_id"`
	Backends []string     `json:"backends"`
	Hist     [][]c18Reply `json:"hist"`
}

type c18MemberObs struct {
	flags []bool
	ids   []string
	mine  []string
}

func init() {
	verifRegister("c18member", "C18: run Nodes.checkNodeAvailability against scripted partner nodes (real HTTP ping)", c18MemberMain)
}

func c18MemberRunCase(in *c18MemberInput) []c18MemberObs {
	lmd := verifNewDaemon()
	lmd.Config.Connections = nil
	for _, id := range in.Backends {
		conn := Connection{ID: id, Name: id, Source: []string{"/nonexistent/verif-" + id + ".sock"}}
		lmd.Config.Connections = append(lmd.Config.Connections, conn)
	}
	for i := range lmd.Config.Connections {
		conn := &lmd.Config.Connections[i]
		lmd.PeerMap[conn.ID] = NewPeer(lmd, conn)
		lmd.PeerMapOrder = append(lmd.PeerMapOrder, conn.ID)
	}
	// all partner nodes share one ip address and differ in the port only
	var round atomic.Int32
	servers := make([]*http.Server, 0, in.Nodes)
	addrs := make([]string, 0, in.Nodes)
	for i := range in.Nodes {
		listener, err := net.Listen("tcp", "127.0.0.1:0")
		if err != nil {
			panic(err)
		}
		idx := i
		srv := &http.Server{Handler: http.HandlerFunc(func(wrt http.ResponseWriter, _ *http.Request) {
			rep := in.Hist[round.Load()][idx]
			wrt.Header().Set("Content-Type", "application/json")
			switch rep.Kind {
			case "garbage":
				fmt.Fprint(wrt, `["pong"]`)
			case "pong":
				data := map[string]interface{}{"identifier": rep.Ident}
				if !rep.NoVer {
					if rep.VerOK {
						data["version"] = Version()
					} else {
						data["version"] = "0.0.0-verif"
					}
				}
				if rep.Peers {
					data["peers"] = []string{"stale-x"}
				}
				raw, _ := json.Marshal(data)
				_, _ = wrt.Write(raw)
			default:
				wrt.WriteHeader(http.StatusServiceUnavailable)
				fmt.Fprint(wrt, `{"error":"down"}`)
			}
		})}
		go func() { _ = srv.Serve(listener) }()
		servers = append(servers, srv)
		addrs = append(addrs, "http://"+listener.Addr().String())
	}
	nodes := NewNodes(lmd, addrs, "http://127.0.0.1:8901")
	lmd.nodeAccessor = nodes
	nodes.ID = in.OwnID
	nodes.heartbeatTimeout = 3 // seconds: generous, so that a loaded machine does not turn a pong into a missed heartbeat
	ctx := context.Background()

	obs := make([]c18MemberObs, 0, len(in.Hist))
	for r := range in.Hist {
		round.Store(int32(r))
		nodes.checkNodeAvailability(ctx)
		o := c18MemberObs{}
		_, o.flags, _, _ = nodes.getOnlineNodes()
		for _, na := range nodes.nodeAddresses {
			o.ids = append(o.ids, na.id)
		}
		for _, id := range in.Backends {
			if nodes.IsOurBackend(id) {
				o.mine = append(o.mine, id)
			}
		}
		obs = append(obs, o)
	}
	for _, id := range in.Backends {
		// a peer that updateBackends is still stopping is not paused yet and nobody reads its stop channel: do not wait
		go lmd.PeerMap[id].Stop()
	}
	for _, srv := range servers {
		_ = srv.Close()
	}

	return obs
}

func c18ReplyCoq(rep *c18Reply) string {
	switch rep.Kind {
	case "garbage":
		return "Garbage"
	case "pong":
		return fmt.Sprintf("(Pong %s %s)", coqStr(rep.Ident), coqBool(rep.VerOK && !rep.NoVer))
	default:
		return "NoReply"
	}
}

func c18MemberCoq(idx int, in *c18MemberInput, obs []c18MemberObs) string {
	hist := make([]string, 0, len(in.Hist))
	for _, h := range in.Hist {
		rs := make([]string, 0, len(h))
		for i := range h {
			rs = append(rs, c18ReplyCoq(&h[i]))
		}
		hist = append(hist, coqList(rs))
	}
	os := make([]string, 0, len(obs))
	for _, o := range obs {
		os = append(os, fmt.Sprintf("(%s, %s, %s)", coqBoolList(o.flags), coqStrList(o.ids), coqStrList(o.mine)))
	}

	return fmt.Sprintf("Definition c%d : mcase := mkMCase %s %s %d %s %s.\n", idx, coqStr(in.OwnID), coqStrList(in.Backends), in.Nodes, coqList(hist), coqList(os))
}

// c18MemberGen: first round identifies node `own`; later rounds are joins, leaves, restarts (new
// identifier), version mismatches, swaps (one leaves while another joins) and rare ping failures.
func c18MemberGen(rnd *vRand, maxNodes, maxBackends int) *c18MemberInput {
	nn := 2 + rnd.intn(maxNodes-1)
	own := rnd.intn(nn)
	in := &c18MemberInput{Nodes: nn, OwnID: "1700000000:OWN", Backends: c18BackendNames(rnd.intn(maxBackends + 1))}
	incarnation := make([]int, nn)
	up := make([]bool, nn)
	ident := func(i int) string { return fmt.Sprintf("17000000%02d:N%d-%d", i, i, incarnation[i]) }
	steps := 2 + rnd.intn(4)
	slow := 0
	for step := range steps {
		rs := make([]c18Reply, nn)
		swapped := false
		for i := range nn {
			if i == own {
				if step == 0 {
					rs[i] = c18Reply{Kind: "pong", Ident: in.OwnID, VerOK: !rnd.chance(1, 8)}
				} else {
					rs[i] = c18Reply{Kind: "none"} // never pinged after the first round
				}

				continue
			}
			// membership change of this node for this round
			switch {
			case step == 0:
				up[i] = rnd.chance(1, 2)
			case rnd.chance(1, 3):
				up[i] = !up[i]
				swapped = true
			case swapped && rnd.chance(1, 2):
				up[i] = !up[i]
			}
			switch {
			case !up[i] && slow < 2 && rnd.chance(1, 6):
				slow++ // SendQuery fails: the ping round waits for the heartbeat timeout
				rs[i] = c18Reply{Kind: "none"}
			case !up[i]:
				rs[i] = c18Reply{Kind: "garbage"}
			default:
				if rnd.chance(1, 5) {
					incarnation[i]++ // restarted
				}
				rs[i] = c18Reply{Kind: "pong", Ident: ident(i), VerOK: !rnd.chance(1, 7), NoVer: rnd.chance(1, 12), Peers: rnd.chance(1, 3)}
			}
		}
		in.Hist = append(in.Hist, rs)
	}

	return in
}

func c18MemberFixed() []*c18MemberInput {
	pong := func(id string) c18Reply { return c18Reply{Kind: "pong", Ident: id, VerOK: true} }
	down := c18Reply{Kind: "garbage"}
	me := "1700000000:OWN"
	bs := c18BackendNames(3)

	return []*c18MemberInput{
		// swap: A leaves while B joins (same number of nodes online)
		{Nodes: 3, OwnID: me, Backends: bs, Hist: [][]c18Reply{{pong(me), pong("A1"), down}, {down, down, pong("B1")}}},
		// restart with a new identifier, nothing else changes
		{Nodes: 2, OwnID: me, Backends: bs, Hist: [][]c18Reply{{pong(me), pong("A1")}, {down, pong("A2")}, {down, pong("A2")}}},
		// a node that shares our address (other port) and is down from the start
		{Nodes: 3, OwnID: me, Backends: bs, Hist: [][]c18Reply{{down, pong(me), pong("B1")}, {down, down, down}, {pong("A1"), down, down}}},
		// version mismatch deactivates a partner
		{Nodes: 2, OwnID: me, Backends: bs, Hist: [][]c18Reply{{pong(me), pong("A1")}, {down, {Kind: "pong", Ident: "A1", VerOK: false}}}},
	}
}

func c18MemberMain(args []string) int {
	flags := verifParseStreamFlags("c18member", args)
	meta := newVMeta("member", "histories of 2..5 ping rounds against 2..5 scripted partner nodes on one ip address (ports differ): first round identifies this node, then joins, leaves, "+
		"swaps (one leaves while another joins), restarts with a new identifier, version mismatch / missing version, non-object replies, failing pings (at most 2 per case: each waits for the heartbeat timeout), pongs with a peers list; "+
		"observed after every round: getOnlineNodes flags, node ids, IsOurBackend set. non-trivial: a later round changes the reachable set; distinct by input")
	inputs := []*c18MemberInput{}
	if flags.replay != "" {
		vReadReplay(flags.replay, &inputs)
	} else {
		inputs = append(inputs, c18MemberFixed()...)
		maxNodes, maxBackends := 4, 8
		if flags.tier == "thorough" {
			maxNodes, maxBackends = 5, 12
		}
		rnd := newVRand(flags.seed*0x9E3779B97F4A7C15 + 0x18)
		for range flags.n {
			inputs = append(inputs, c18MemberGen(rnd.fork(), maxNodes, maxBackends))
		}
	}

	// cases mostly wait (heartbeat timeout of failing pings): run them concurrently
	results := make([][]c18MemberObs, len(inputs))
	sem := make(chan struct{}, 32)
	wg := sync.WaitGroup{}
	for i := range inputs {
		wg.Add(1)
		sem <- struct{}{}
		go func(i int) {
			defer wg.Done()
			defer func() { <-sem }()
			defer func() {
				if r := recover(); r != nil {
					results[i] = nil // reported as a mismatch (no observations)
				}
			}()
			results[i] = c18MemberRunCase(inputs[i])
		}(i)
	}
	wg.Wait()

	var sb strings.Builder
	sb.WriteString("From LMD Require Import C18.RunM.\nOpen Scope N_scope.\nOpen Scope string_scope.\n")
	names := []string{}
	for i, in := range inputs {
		sb.WriteString(c18MemberCoq(i, in, results[i]))
		names = append(names, fmt.Sprintf("c%d", i))
		meta.count(fmt.Sprintf("nodes=%d", in.Nodes))
		meta.count(fmt.Sprintf("rounds=%d", len(in.Hist)))
		changed := false
		for r := range in.Hist {
			for i := range in.Hist[r] {
				rep := &in.Hist[r][i]
				kind := rep.Kind
				if kind == "pong" && (!rep.VerOK || rep.NoVer) {
					kind = "pong_bad_version"
				}
				meta.count("reply=" + kind)
				if r > 0 && (rep.Kind == "pong") != (in.Hist[r-1][i].Kind == "pong") && in.Hist[r-1][i].Ident != in.OwnID {
					changed = true
				}
			}
		}
		meta.add(fmt.Sprintf("%v", *in), changed, in)
	}
	sb.WriteString("Definition cases : list mcase := " + coqList(names) + ".\n")
	sb.WriteString("Definition M := Eval vm_compute in mmismatches cases.\nPrint M.\n")
	if err := os.WriteFile(flags.out, []byte(sb.String()), 0o644); err != nil {
		panic(err)
	}
	meta.write(flags.meta)

	return 0
}
