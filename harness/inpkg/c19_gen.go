//go:build verif

package lmd

// c19_gen.go - generated file Gen/Export.v: the graph of Exporter.isExportColumn over every
// column of every table, for a peer that has all optional flags and for one that has none
// (the function depends on the peer only through HasFlag(col.Optional)). C19/Props.v proves
// its obligations against this file, so a change of isExportColumn breaks a proof.

import (
	"fmt"
	"strings"
)

func init() {
	verifGenExtra["Export.v"] = c19GenExport
}

func c19GenExport() string {
	var sb strings.Builder
	sb.WriteString("(* GENERATED on every run by `lmdverif gen` from Exporter.isExportColumn of /repo/pkg/lmd. Do not edit. *)\n")
	sb.WriteString("From LMD Require Import Base.Str.\nOpen Scope N_scope.\nOpen Scope string_scope.\n\n")
	sb.WriteString("(* table, [(column, exported for a peer with all flags, exported for a peer without flags)] *)\n")
	ex := &Exporter{}
	all := &Peer{flags: ^uint32(0)}
	none := &Peer{}
	tables := []string{}
	for _, tn := range genTableNames() {
		table := Objects.Tables[tn]
		if table.name != tn {
			continue // alias
		}
		cols := []string{}
		for _, col := range table.columns {
			cols = append(cols, fmt.Sprintf("  (%s, %s, %s)", coqStr(col.Name), coqBool(ex.isExportColumn(all, col)), coqBool(ex.isExportColumn(none, col))))
		}
		tables = append(tables, fmt.Sprintf("(%s, [\n%s\n])", coqStr(tn.String()), strings.Join(cols, ";\n")))
	}
	sb.WriteString("Definition export_graph : list (str * list (str * bool * bool)) := [\n" + strings.Join(tables, ";\n") + "\n].\n")

	return sb.String()
}
