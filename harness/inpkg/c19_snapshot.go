//go:build verif

package lmd

// c19_snapshot.go - C19: export followed by import reproduces the cache.
//
// Daemon A gets one connection per generated backend (C02's generator, flavours and value
// shapes; served by the scripted backend through C02's wire wrapper so that raw bytes reach
// lmd). The REAL Exporter.Export creates the peers, runs InitAllTables on each and writes the
// tarball under /verif/work/c19/. Daemon B is built by initializePeersWithImport from that
// tarball - it never sees a backend. Then
//   - every cached table is read with all modelled columns from B (Coq: equals
//     query_table (import (export (load delivered))) and, by C19_roundtrip, the exporting store),
//   - the tarball's file list and header rows are compared with the model's export,
//   - generated queries of the C01/C05/C06 kind (filters, stats, sort/limit/offset, AuthUser,
//     Backends, wrapped_json) are sent to A and B; the canonicalised answers must be identical.

import (
	"archive/tar"
	"compress/gzip"
	"encoding/json"
	"fmt"
	"io"
	"os"
	"path/filepath"
	"sort"
	"strings"

	"github.com/sasha-s/go-deadlock"
)

type c19Input struct {
	Backends []*c02Input `json:"backends"`
	Names    []string    `json:"names"`
	Queries  []string    `json:"queries"`
	Optimize []bool      `json:"optimize"`
	// Folder: the snapshot is unpacked and imported from the folder (lmd -import <dir>) instead of the tarball
	Folder bool `json:"folder,omitempty"`
}

func init() {
	verifRegister("c19snapshot", "C19: Exporter -> tarball -> initializePeersWithImport, same queries to both daemons", c19Main)
}

func c19WorkDir() string {
	dir := "/verif/work/c19"
	if err := os.MkdirAll(dir, 0o755); err != nil {
		panic(err)
	}

	return dir
}

type c19Files struct {
	order   []string            // entry names in tar order
	headers map[string][]string // sites/<id>/<table>.json -> header row
}

// c19Unpack extracts the snapshot tarball into dir (what `tar xzf` does).
func c19Unpack(tarPath, dir string) error {
	fh, err := os.Open(tarPath)
	if err != nil {
		return err
	}
	defer fh.Close()
	gz, err := gzip.NewReader(fh)
	if err != nil {
		return err
	}
	rd := tar.NewReader(gz)
	for {
		hdr, err := rd.Next()
		if err == io.EOF {
			return nil
		}
		if err != nil {
			return err
		}
		target := filepath.Join(dir, filepath.Clean("/"+hdr.Name))
		switch hdr.Typeflag {
		case tar.TypeDir:
			if err = os.MkdirAll(target, 0o755); err != nil {
				return err
			}
		case tar.TypeReg:
			if err = os.MkdirAll(filepath.Dir(target), 0o755); err != nil {
				return err
			}
			body, err := io.ReadAll(rd)
			if err != nil {
				return err
			}
			if err = os.WriteFile(target, body, 0o644); err != nil {
				return err
			}
		}
	}
}

func c19ReadTar(path string) (*c19Files, error) {
	fh, err := os.Open(path)
	if err != nil {
		return nil, err
	}
	defer fh.Close()
	gz, err := gzip.NewReader(fh)
	if err != nil {
		return nil, err
	}
	rd := tar.NewReader(gz)
	res := &c19Files{headers: map[string][]string{}}
	for {
		hdr, err := rd.Next()
		if err == io.EOF {
			break
		}
		if err != nil {
			return nil, err
		}
		if hdr.Typeflag != tar.TypeReg {
			continue
		}
		body, err := io.ReadAll(rd)
		if err != nil {
			return nil, err
		}
		res.order = append(res.order, hdr.Name)
		var rows []json.RawMessage
		if json.Unmarshal(body, &rows) == nil && len(rows) > 0 {
			var head []string
			if json.Unmarshal(rows[0], &head) == nil {
				res.headers[hdr.Name] = head
			}
		}
	}

	return res, nil
}

// columns whose value is state of the answering lmd instance, not cached backend data
var c19InstanceCols = map[string]bool{"lmd_last_cache_update": true, "localtime": true, "peer_section": true, "peer_addr": true, "peer_status": true,
	"peer_bytes_send": true, "peer_bytes_received": true, "peer_queries": true, "peer_last_error": true, "peer_last_update": true,
	"peer_last_online": true, "peer_response_time": true, "configtool": true, "thruk": true}

type c19BackendObs struct {
	key, name string
	flags     uint32
	oflagsA   uint32
	oflagsB   uint32
	tables    []*c02TableObs // req/rows: what A's peer was delivered; qcols/obs: what B answers
	headers   []string       // Coq: (table, header) pairs of the tarball
}

type c19Result struct {
	err      string
	backends []*c19BackendObs
	agree    []bool
	notes    []string
}

func c19ObsText(o *qeObs) string {
	rows := append([]string{}, o.rows...)
	sort.Strings(rows)

	return fmt.Sprintf("%s|%d|%v|%d|%v|%s", o.kind, o.code, o.hasTot, o.total, o.failed, strings.Join(rows, "\n"))
}

// c19SortPrefix extracts the sequence of the first n cells of every row (the sort keys a generated query lists first).
func c19RowSeq(o *qeObs) string { return strings.Join(o.rows, "\n") }

func c19HasSort(text string) bool { return strings.Contains(text, "\nSort:") }

func c19RunCase(idx int, in *c19Input, intern *c02Intern) (res *c19Result) {
	res = &c19Result{}
	defer func() {
		if rec := recover(); rec != nil {
			res.err = fmt.Sprintf("panic: %v", rec)
		}
	}()
	lmdA := verifNewDaemon()
	lmdA.Config.Connections = nil
	backends := []*vBackend{}
	wires := []*c02Wire{}
	defer func() {
		for _, w := range wires {
			w.Close()
		}
		for _, b := range backends {
			b.Close()
		}
		lmdA.PeerMapLock.RLock()
		for _, p := range lmdA.PeerMap {
			p.Stop()
		}
		lmdA.PeerMapLock.RUnlock()
	}()
	for i, bin := range in.Backends {
		backend := newVBackend(fmt.Sprintf("c19-%d-%d", idx, i))
		backends = append(backends, backend)
		dataset := map[string]*vTable{}
		for _, t := range bin.Tables {
			tab := &vTable{Cols: append([]string{}, t.Cols...)}
			for _, row := range t.Rows {
				conv := make([]interface{}, len(row))
				for ci := range row {
					conv[ci] = c02Cell(row[ci])
				}
				tab.Rows = append(tab.Rows, conv)
			}
			dataset[t.Name] = tab
		}
		backend.SetDataset(dataset)
		wire := newC02Wire(fmt.Sprintf("c19-%d-%d", idx, i), backend, nil)
		wires = append(wires, wire)
		lmdA.Config.Connections = append(lmdA.Config.Connections, Connection{ID: fmt.Sprintf("id%d", i+1), Name: in.Names[i], Source: []string{wire.addr}})
		lmdA.Config.MaxParallelPeerConnections = bin.Parallel
	}
	tarPath := filepath.Join(c19WorkDir(), fmt.Sprintf("%d-%d.tgz", os.Getpid(), idx))
	defer os.Remove(tarPath)
	ex := &Exporter{lmd: lmdA}
	if err := ex.Export(tarPath); err != nil {
		res.err = "export: " + err.Error()

		return res
	}
	files, err := c19ReadTar(tarPath)
	if err != nil {
		res.err = "tarball: " + err.Error()

		return res
	}
	lmdB := verifNewDaemon()
	importPath := tarPath
	if in.Folder {
		importPath = strings.TrimSuffix(tarPath, ".tgz") + ".d"
		defer os.RemoveAll(importPath)
		if err = c19Unpack(tarPath, importPath); err != nil {
			res.err = "unpack: " + err.Error()

			return res
		}
	}
	lmdB.flags.flagImport = importPath
	if err = initializePeersWithImport(lmdB, importPath); err != nil {
		res.err = "import: " + err.Error()

		return res
	}
	defer func() {
		for _, p := range lmdB.PeerMap {
			p.Stop()
		}
	}()

	for i, bin := range in.Backends {
		id := fmt.Sprintf("id%d", i+1)
		bo := &c19BackendObs{key: id, name: in.Names[i], flags: c02ExpectedFlags(bin)}
		res.backends = append(res.backends, bo)
		peerA, peerB := lmdA.PeerMap[id], lmdB.PeerMap[id]
		if peerA == nil || peerB == nil {
			res.err = "peer " + id + " missing"

			return res
		}
		bo.oflagsA, bo.oflagsB = peerA.flags, peerB.flags
		wires[i].mu.Lock()
		captured := wires[i].captured
		wires[i].mu.Unlock()
		refRand := newVRand(bin.RefSeed)
		for _, tn := range Objects.UpdateTables {
			table := Objects.Tables[tn]
			cap := captured[tn.String()]
			if cap == nil {
				res.err = "initial fetch of " + tn.String() + " not seen"

				return res
			}
			obs := &c02TableObs{name: tn.String(), req: cap.cols}
			for _, row := range cap.rows {
				cells := []string{}
				for ci, cell := range row {
					dt := StringCol
					if ci < len(cap.cols) {
						if col := table.GetColumn(cap.cols[ci]); col != nil {
							dt = col.DataType
						}
					}
					term := c02RawTerm(cell)
					if term == c02RawDefault(dt) {
						continue
					}
					cells = append(cells, fmt.Sprintf("R %d (%s)", ci, intern.term("raw", term)))
				}
				obs.rows = append(obs.rows, fmt.Sprintf("(%d%%nat, %s)", len(row), coqList(cells)))
			}
			obs.qcols = c02QueryColumns(table, refRand, bin.RefPct)
			text := fmt.Sprintf("GET %s\nColumns: %s\nBackends: %s\nOutputFormat: json\n\n", tn.String(), strings.Join(obs.qcols, " "), id)
			outB, errB := vQuery(lmdB, text)
			outA, errA := vQuery(lmdA, text)
			if errA != nil || errB != nil || string(outA) != string(outB) {
				res.notes = append(res.notes, fmt.Sprintf("full-column GET %s on %s differs between exporting and importing instance", tn.String(), id))
				res.agree = append(res.agree, false)
			}
			var rows [][]json.RawMessage
			if errB != nil || json.Unmarshal(outB, &rows) != nil {
				obs.obs = append(obs.obs, "[C 0 (VStr (s \"?query failed\"))]")
			}
			for _, row := range rows {
				cells := []string{}
				for ci, cell := range row {
					if ci >= len(obs.qcols) {
						break
					}
					dt := table.GetColumn(obs.qcols[ci]).DataType
					term := qeCell(dt, cell)
					if term == c02ZeroValue(dt) {
						continue
					}
					cells = append(cells, fmt.Sprintf("C %d (%s)", ci, intern.term("value", term)))
				}
				obs.obs = append(obs.obs, coqList(cells))
			}
			bo.tables = append(bo.tables, obs)
			entry := fmt.Sprintf("sites/%s/%s.json", id, tn.String())
			head, ok := files.headers[entry]
			if !ok {
				res.notes = append(res.notes, "tarball lacks "+entry)
				res.agree = append(res.agree, false)
			}
			bo.headers = append(bo.headers, fmt.Sprintf("(%s, %s)", coqStr(tn.String()), intern.list(head)))
		}
		// the tarball holds exactly backends.json + one file per cached table for this peer
		want := map[string]bool{fmt.Sprintf("sites/%s/backends.json", id): true}
		for _, tn := range Objects.UpdateTables {
			want[fmt.Sprintf("sites/%s/%s.json", id, tn.String())] = true
		}
		for _, name := range files.order {
			if strings.HasPrefix(name, "sites/"+id+"/") {
				if !want[name] {
					res.notes = append(res.notes, "unexpected tarball entry "+name)
					res.agree = append(res.agree, false)
				}
				delete(want, name)
			}
		}
		for name := range want {
			res.notes = append(res.notes, "missing tarball entry "+name)
			res.agree = append(res.agree, false)
		}
	}

	// the generated queries: identical answers
	for qi, text := range in.Queries {
		optimize := qi < len(in.Optimize) && in.Optimize[qi]
		obsA := qeRunQuery(lmdA, text, optimize)
		obsB := qeRunQuery(lmdB, text, optimize)
		same := c19ObsText(obsA) == c19ObsText(obsB)
		if same && c19HasSort(text) && len(in.Backends) == 1 {
			same = c19RowSeq(obsA) == c19RowSeq(obsB)
		}
		if !same && len(in.Backends) > 1 && !c19HasSort(text) && (strings.Contains(text, "\nLimit:") || strings.Contains(text, "\nOffset:")) {
			// a window over the unsorted union of several backends: which rows fall into it depends on the order the
			// per-backend results arrive in (C06's tie rule); only the shape of the answer is comparable
			same = obsA.kind == obsB.kind && obsA.code == obsB.code && len(obsA.rows) == len(obsB.rows) && obsA.total == obsB.total
		}
		if !same {
			res.notes = append(res.notes, fmt.Sprintf("query %d differs: %q\n A: %.600s\n B: %.600s", qi, text, c19ObsText(obsA), c19ObsText(obsB)))
		}
		res.agree = append(res.agree, same)
	}

	return res
}

func c19Coq(idx int, res *c19Result, intern *c02Intern) string {
	var sb strings.Builder
	bnames := []string{}
	for bi, bo := range res.backends {
		tnames := []string{}
		for ti, t := range bo.tables {
			name := fmt.Sprintf("c%d_b%d_t%d", idx, bi, ti)
			tnames = append(tnames, name)
			req, qcols := intern.list(t.req), intern.list(t.qcols)
			sb.WriteString(intern.defs.String())
			intern.defs.Reset()
			fmt.Fprintf(&sb, "Definition %s : tcase := mkT %s %s\n  [%s]\n  %s\n  [%s].\n", name, coqStr(t.name), req,
				strings.Join(t.rows, ";\n   "), qcols, strings.Join(t.obs, ";\n   "))
		}
		sb.WriteString(intern.defs.String())
		intern.defs.Reset()
		bname := fmt.Sprintf("c%d_b%d", idx, bi)
		bnames = append(bnames, bname)
		fmt.Fprintf(&sb, "Definition %s : bcase := mkB %s %s %d %d %d %s %s.\n", bname, coqStr(bo.key), coqStr(bo.name), bo.flags, bo.oflagsA, bo.oflagsB,
			coqList(tnames), coqList(bo.headers))
	}
	sb.WriteString(intern.defs.String())
	intern.defs.Reset()
	errFlag := "false"
	if res.err != "" {
		errFlag = "true"
	}
	fmt.Fprintf(&sb, "Definition c%d : scase := mkS %s %s %s.\n", idx, errFlag, coqList(bnames), coqBoolList(res.agree))

	return sb.String()
}

// ---- generator ---------------------------------------------------------------------------

// c19AsQE gives the query generator typed cells to draw filter values from.
func c19AsQE(in *c19Input) *qeDataset {
	ds := &qeDataset{}
	for i, bin := range in.Backends {
		bk := &qeBackend{Key: fmt.Sprintf("id%d", i+1), Name: in.Names[i], Avail: true}
		for _, t := range bin.Tables {
			tn, err := NewTableName(t.Name)
			if err != nil {
				continue
			}
			table := Objects.Tables[tn]
			qt := &qeTable{Name: t.Name, Cols: t.Cols}
			for _, row := range t.Rows {
				conv := make([]interface{}, len(row))
				for ci, cell := range row {
					conv[ci] = nil
					col := table.GetColumn(t.Cols[ci])
					if col == nil {
						continue
					}
					switch v := c02Cell(cell).(type) {
					case string:
						if !strings.ContainsAny(v, "\n\x00") && !strings.ContainsRune(v, 0xE001) && len(v) < 80 {
							clean := true
							for _, r := range v {
								if r >= c02RawBase && r <= c02RawBase+0xff || r < 0x20 {
									clean = false
								}
							}
							if clean {
								conv[ci] = v
							}
						}
					case int64:
						switch col.DataType {
						case FloatCol:
							conv[ci] = qeMilli(v * 1000)
						case IntCol, Int64Col:
							conv[ci] = v
						}
					case []interface{}:
						if col.DataType == StringListCol {
							l := []string{}
							for _, e := range v {
								if s, ok := e.(string); ok && s != "" && !strings.ContainsAny(s, "\x00") && !strings.ContainsRune(s, 0xE0FF) {
									l = append(l, s)
								}
							}
							conv[ci] = l
						}
					}
				}
				qt.Rows = append(qt.Rows, conv)
			}
			bk.Tables = append(bk.Tables, qt)
		}
		ds.Backends = append(ds.Backends, bk)
	}

	return ds
}

// c19Consistent: exactly one status row, services / comments / downtimes name existing hosts.
func c19Consistent(bin *c02Input) bool {
	hosts := map[string]bool{}
	for _, t := range bin.Tables {
		if t.Name == "hosts" {
			for ci, c := range t.Cols {
				if c == "name" {
					for _, row := range t.Rows {
						hosts[fmt.Sprintf("%v", row[ci])] = true
					}
				}
			}
		}
	}
	for _, t := range bin.Tables {
		switch t.Name {
		case "status":
			if len(t.Rows) != 1 {
				return false
			}
		case "services", "comments", "downtimes":
			for ci, c := range t.Cols {
				if c == "host_name" {
					for _, row := range t.Rows {
						if !hosts[fmt.Sprintf("%v", row[ci])] {
							return false
						}
					}
				}
			}
		}
	}

	return true
}

// c19TotalOrder makes the window of a data request with Limit / Offset independent of how ties of its sort keys are
// resolved: the answers of the exporting and the importing daemon are compared row by row, and rows with equal keys
// arrive from the backends' goroutines in scheduling dependent order (seen once in a thorough run: `Sort:
// host_acknowledged asc / Limit: 5 / Offset: 4` over two backends). The primary key and the backend are appended
// as last sort keys.
func c19TotalOrder(text string) string {
	if !strings.Contains(text, "\nLimit:") && !strings.Contains(text, "\nOffset:") || strings.Contains(text, "\nStats:") {
		return text
	}
	table := strings.TrimSpace(strings.TrimPrefix(strings.SplitN(text, "\n", 2)[0], "GET "))
	keys := map[string][]string{"hosts": {"name"}, "services": {"host_name", "description"}, "comments": {"id"}, "downtimes": {"id"},
		"hostgroups": {"name"}, "servicegroups": {"name"}, "contacts": {"name"}, "contactgroups": {"name"}, "commands": {"name"},
		"timeperiods": {"name"}}[table]
	if keys == nil {
		return text
	}
	extra := ""
	for _, k := range append(keys, "peer_key") {
		extra += "Sort: " + k + " asc\n"
	}

	return strings.TrimRight(text, "\n") + "\n" + extra + "\n"
}

func c19Gen(r *vRand, hist map[string]int, tier string) *c19Input {
	in := &c19Input{}
	nb := 1 + r.intn(2)
	if r.chance(1, 6) {
		nb = 3
	}
	refPct := 20
	if tier == "thorough" {
		refPct = 100
	}
	for i := 0; i < nb; i++ {
		g := &c02Gen{r: r.fork(), hist: hist}
		var bin *c02Input
		for {
			bin = g.gen(refPct)
			// well-formed, consistent backends only: the malformed classes belong to C02 (and a filter on
			// host_custom_variables of a service without host takes lmd down - C09's finding, not this property's)
			ok := bin.Short == nil && c19Consistent(bin)
			if ok {
				break
			}
		}
		in.Backends = append(in.Backends, c02Roundtrip(bin))
		in.Names = append(in.Names, vPick(r, []string{"Site A", "site-b", "Ünï", "x"})+fmt.Sprintf("%d", i+1))
	}
	hist[fmt.Sprintf("backends=%d", nb)]++
	qhist := map[string]int{}
	gen := &qeGen{r: r.fork(), ds: c19AsQE(in), pFilter: 60, pStats: 30, pSort: 50, pLimit: 30, pAuth: 15, pBackends: 15, pWrapped: 30, pGrouped: 20,
		pIndexLeaf: 30, maxDepth: 2, hist: qhist,
		tables: []string{"hosts", "hosts", "services", "services", "hostgroups", "servicegroups", "contacts", "contactgroups", "commands", "timeperiods", "comments", "downtimes", "status",
			"hostsbygroup", "servicesbygroup", "servicesbyhostgroup"}}
	for q := 0; q < 12; q++ {
		in.Queries = append(in.Queries, c19TotalOrder(gen.request()))
		in.Optimize = append(in.Optimize, r.chance(1, 2))
	}
	// a few fixed shapes: virtual columns that depend on other tables or on peer state
	in.Queries = append(in.Queries,
		"GET hosts\nColumns: name last_state_change_order state_order comments_with_info downtimes_with_info services_with_state services_with_info peer_key peer_name\nSort: name asc\nOutputFormat: json\n\n",
		"GET services\nColumns: host_name description last_state_change_order comments_with_info host_comments_with_info host_peer_key\nOutputFormat: json\n\n",
		"GET hostgroups\nColumns: name members_with_state\nOutputFormat: json\n\n",
		"GET servicegroups\nColumns: name members_with_state\nOutputFormat: json\n\n",
		"GET status\nColumns: program_start peer_key peer_name\nOutputFormat: wrapped_json\n\n",
		"GET hosts\nStats: state = 0\nStats: state = 1\nStats: avg latency\nStats: sum num_services\n\n")
	in.Optimize = append(in.Optimize, true, false, true, true, false, true)
	for k, v := range qhist {
		hist["q:"+k] += v
	}

	return in
}

func c19ReadReplay(path string) []*c19Input {
	buf, err := os.ReadFile(path)
	if err != nil {
		panic(err)
	}
	var wrapper struct {
		Inputs json.RawMessage `json:"inputs"`
	}
	if err = json.Unmarshal(buf, &wrapper); err != nil {
		panic(err)
	}
	dec := json.NewDecoder(strings.NewReader(string(wrapper.Inputs)))
	dec.UseNumber()
	inputs := []*c19Input{}
	if err = dec.Decode(&inputs); err != nil {
		panic(err)
	}

	return inputs
}

func c19Main(args []string) int {
	flags := verifParseStreamFlags("c19snapshot", args)
	// as in production without -debug-deadlock (main.go:534): exportPeers holds PeerMapLock.RLock while
	// addTable -> ExpandRequestedBackends takes it again, which the detector reports as recursive locking and exits
	deadlock.Opts.Disable = true
	meta := newVMeta("c19snapshot", "1-3 generated backends (C02's dataset generator: flavours, raw bytes, long strings, list shapes, number edges; well-formed replies only) -> "+
		"real Exporter.Export -> tarball -> initializePeersWithImport; 12 generated queries of the C01/C05/C06 kind (qe_query.go generator: filters, stats, grouped stats, sort, "+
		"limit/offset, AuthUser, Backends, wrapped_json) plus 6 fixed ones on cross-table virtual columns, each sent to the exporting and the importing daemon; "+
		"full-column read back of every table from the importing daemon vs the Coq model. non-trivial: at least 2 object rows in some backend; distinct by input")
	inputs := []*c19Input{}
	if flags.replay != "" {
		inputs = c19ReadReplay(flags.replay)
	} else {
		rnd := newVRand(flags.seed)
		for k := range flags.n {
			in := c19Gen(rnd.fork(), meta.Histogram, flags.tier)
			in.Folder = k%2 == 1
			// same path as a replayed input
			buf, _ := json.Marshal(in)
			dec := json.NewDecoder(strings.NewReader(string(buf)))
			dec.UseNumber()
			norm := &c19Input{}
			if err := dec.Decode(norm); err != nil {
				panic(err)
			}
			inputs = append(inputs, norm)
		}
	}
	var sb strings.Builder
	sb.WriteString("From LMD Require Import C19.Run.\nOpen Scope N_scope.\nOpen Scope string_scope.\n")
	names := []string{}
	intern := &c02Intern{names: map[string]string{}}
	for i, in := range inputs {
		res := c19RunCase(i, in, intern)
		sb.WriteString(c19Coq(i, res, intern))
		names = append(names, fmt.Sprintf("c%d", i))
		if res.err != "" {
			fmt.Fprintf(os.Stderr, "c19snapshot: case %d: %s\n", i, res.err)
			meta.count("error")
		}
		for _, n := range res.notes {
			fmt.Fprintf(os.Stderr, "c19snapshot: case %d: %s\n", i, n)
		}
		nontrivial := false
		for _, b := range in.Backends {
			if c02Nontrivial(b) {
				nontrivial = true
			}
		}
		key, _ := json.Marshal(in)
		meta.add(string(key), nontrivial, in)
	}
	sb.WriteString("Definition cases : list scase := " + coqList(names) + ".\n")
	sb.WriteString("Definition M := Eval vm_compute in mismatches cases.\nPrint M.\n")
	if err := os.WriteFile(flags.out, []byte(sb.String()), 0o644); err != nil {
		panic(err)
	}
	meta.write(flags.meta)

	return 0
}
