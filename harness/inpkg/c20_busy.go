//go:build verif

package lmd

import (
	"encoding/json"
	"fmt"
	"net"
	"os"
	"sort"
	"strings"
	"sync"
	"sync/atomic"
	"time"
)

// C20, stream "busy": clients query while a reload has to wait for a backend.
//
// Some connections point at a scripted backend that accepts the connection,
// reads the request and does not answer (c20Hang): their peers sit in the first
// request of the initial synchronisation (for up to NetTimeout) when SIGHUP
// arrives. The reload edits the configuration (the busy connection is changed,
// removed or kept; idle ones are added / removed / changed / reordered); the
// main loop has to stop the peers of changed and removed connections, and
// Peer.Stop() returns only when the update loop is back from its request.
// While the reload is waiting, client goroutines send `GET sites` over a
// listener with a time limit that is far below NetTimeout; every answer is
// recorded with its phase tags (as in stream serve) and the time it took.
// When the clients have what they need (or one of them ran out of time) the
// hanging backends drop their connections, the pending requests fail, the
// reload finishes, and the clients take a few more answers in the steady state.
//
// Model (coq/theories/C20/Run4.v): every answer arrives within the limit and
// is explained by the model states its lifetime overlaps (Run2.resp_ok: all
// backends whose peer object is the same before and after the reload are
// listed, nothing that is in neither state).

const (
	c20BusyNetTimeout = 15                      // seconds: how long a busy peer keeps the reload waiting if nobody releases it
	c20BusyLimit      = 3000 * time.Millisecond // per client query (the unchanged tree answers within milliseconds)
	c20BusyAnswers    = 10                      // answers wanted while the reload is waiting
	c20BusyClients    = 2
)

// c20Hang accepts connections, reads what is sent and never answers.
type c20Hang struct {
	path     string
	listener net.Listener
	mu       sync.Mutex
	conns    []net.Conn
	pending  int // connections on which a request has arrived
	released bool
}

func newC20Hang(path string) *c20Hang {
	os.Remove(path)
	listener, err := net.Listen("unix", path)
	if err != nil {
		panic("c20busy: " + err.Error())
	}
	hang := &c20Hang{path: path, listener: listener}
	go func() {
		for {
			conn, err := listener.Accept()
			if err != nil {
				return
			}
			hang.mu.Lock()
			if hang.released {
				hang.mu.Unlock()
				conn.Close()

				continue
			}
			hang.conns = append(hang.conns, conn)
			hang.mu.Unlock()
			go func() {
				buf := make([]byte, 4096)
				first := true
				for {
					n, err := conn.Read(buf)
					if n > 0 && first {
						first = false
						hang.mu.Lock()
						hang.pending++
						hang.mu.Unlock()
					}
					if err != nil {
						return
					}
				}
			}()
		}
	}()

	return hang
}

func (h *c20Hang) Pending() int {
	h.mu.Lock()
	defer h.mu.Unlock()

	return h.pending
}

// Release drops all connections and stops listening: pending requests fail, later connects are refused.
func (h *c20Hang) Release() {
	h.mu.Lock()
	defer h.mu.Unlock()
	if h.released {
		return
	}
	h.released = true
	h.listener.Close()
	os.Remove(h.path)
	for _, conn := range h.conns {
		conn.Close()
	}
}

type c20TimedResp struct {
	A, B int
	OK   bool
	Ms   int64
	Rows [][4]string
}

type c20BusyClient struct {
	path    string
	dir     string
	tag     atomic.Int64
	stop    atomic.Bool
	wg      sync.WaitGroup
	lock    sync.Mutex
	resps   []*c20TimedResp
	inTag   map[int]int // tag -> answers that started and ended in it
	late    int         // queries that failed or ran out of time
	errText string
}

func (c *c20BusyClient) loop() {
	defer c.wg.Done()
	for !c.stop.Load() {
		tagA := int(c.tag.Load())
		start := time.Now()
		rows, err := c20QueryWithin(c.path, c20ServeQuery, c20BusyLimit)
		took := time.Since(start)
		tagB := int(c.tag.Load())
		if tagA <= 1 && err != nil {
			// the daemon is still starting, nothing listens yet
			time.Sleep(100 * time.Microsecond)

			continue
		}
		resp := &c20TimedResp{A: tagA, B: tagB, OK: err == nil, Ms: took.Milliseconds()}
		for _, row := range rows {
			if len(row) != 4 {
				resp.OK = false

				continue
			}
			resp.Rows = append(resp.Rows, [4]string{fmt.Sprintf("%v", row[0]), fmt.Sprintf("%v", row[1]), fmt.Sprintf("%v", row[2]),
				c20Symbolic(c.dir, fmt.Sprintf("%v", row[3]))})
		}
		sort.Slice(resp.Rows, func(i, j int) bool { return fmt.Sprintf("%q", resp.Rows[i]) < fmt.Sprintf("%q", resp.Rows[j]) })
		c.lock.Lock()
		c.resps = append(c.resps, resp)
		if !resp.OK {
			c.late++
			if err != nil {
				c.errText = err.Error()
			}
		} else if tagA == tagB {
			c.inTag[tagA]++
		}
		c.lock.Unlock()
		// a few hundred answers per second are plenty
		time.Sleep(2 * time.Millisecond)
	}
}

func (c *c20BusyClient) count(tag int) (answers, late int) {
	c.lock.Lock()
	defer c.lock.Unlock()

	return c.inTag[tag], c.late
}

type c20BusyResult struct {
	Resps   []*c20TimedResp
	Waiting bool  // the reload was still running when the clients had their answers
	WaitMs  int64 // how long the reload took
}

// c20BusyCase: Steps[0] is started, Steps[1] is the reload.
func c20BusyCase(in *c20Input) *c20BusyResult {
	run := c20NewRun(in)
	defer run.shutdown()
	hangs := map[string]*c20Hang{}
	for _, name := range in.Hang {
		hangs[name] = newC20Hang(c20Path(run.dir, name))
	}
	release := func() {
		for _, h := range hangs {
			h.Release()
		}
	}
	defer release()
	isHang := func(conn *c20Conn) bool { return len(conn.Source) > 0 && hangs[conn.Source[0]] != nil }

	client := &c20BusyClient{path: c20Path(run.dir, in.Steps[0].Listen[0]), dir: run.dir, inTag: map[int]int{}}
	client.tag.Store(1)
	for range c20BusyClients {
		client.wg.Add(1)
		go client.loop()
	}
	defer func() {
		client.stop.Store(true)
		client.wg.Wait()
	}()
	fail := func(format string, args ...interface{}) {
		client.lock.Lock()
		text := client.errText
		client.lock.Unlock()
		panic("c20busy: " + fmt.Sprintf(format, args...) + " (last client error: " + text + ")")
	}

	run.apply(&in.Steps[0])
	// idle peers have failed their first connection attempt, busy ones wait for an answer
	run.lmd.PeerMapLock.RLock()
	peers := map[string]*Peer{}
	for id, p := range run.lmd.PeerMap {
		peers[id] = p
	}
	run.lmd.PeerMapLock.RUnlock()
	for i := range in.Steps[0].Conns {
		conn := &in.Steps[0].Conns[i]
		peer := peers[conn.ID]
		if peer == nil {
			fail("no peer for %q", conn.ID)
		}
		if isHang(conn) {
			hang := hangs[conn.Source[0]]
			if !c20WaitFor(5*time.Second, func() bool { return hang.Pending() > 0 }) {
				fail("the peer of %q does not send a request", conn.ID)
			}
		} else {
			c20WaitFor(5*time.Second, func() bool {
				return (peer.peerState.Get() != PeerStatusPending && peer.errorLogged.Load()) || peer.paused.Load()
			})
		}
	}
	client.tag.Store(2)
	if !c20WaitFor(5*time.Second, func() bool { n, _ := client.count(2); return n >= 2 }) {
		fail("no answer in the steady phase before the reload")
	}

	res := &c20BusyResult{}
	if len(in.Steps) > 1 {
		done := make(chan bool, 1)
		client.tag.Store(3)
		started := time.Now()
		go func() {
			run.apply(&in.Steps[1])
			done <- true
		}()
		finished := false
		c20WaitFor(c20BusyLimit+5*time.Second, func() bool {
			select {
			case <-done:
				finished = true
			default:
			}
			n, late := client.count(3)

			return finished || late > 0 || n >= c20BusyAnswers
		})
		res.Waiting = !finished
		release()
		if !finished {
			select {
			case <-done:
			case <-time.After(c20Deadline + 5*time.Second):
				fail("the reload does not finish")
			}
		}
		res.WaitMs = time.Since(started).Milliseconds()
		client.tag.Store(4)
		if !c20WaitFor(2*c20BusyLimit+5*time.Second, func() bool { n, _ := client.count(4); return n >= 2 }) {
			fail("no answer in the steady phase after the reload")
		}
	}
	client.stop.Store(true)
	client.wg.Wait()
	release()
	run.observe() // lets everything come to rest and registers the peers for shutdown
	client.lock.Lock()
	res.Resps = client.resps
	client.lock.Unlock()

	return res
}

// ---- generator -------------------------------------------------------------------------

func c20BusyGenerate(rnd *vRand) (*c20Input, []string) {
	gen := &c20Gen{rnd: rnd}
	cfg := c20Config{Listen: []string{c20ServeListener}}
	if rnd.chance(1, 3) {
		cfg.Listen = append(cfg.Listen, gen.freshListener())
	}
	count := 2 + rnd.intn(4)
	for range count {
		cfg.Conns = append(cfg.Conns, gen.freshConn())
	}
	in := &c20Input{}
	busy := []int{rnd.intn(count)}
	if count > 2 && rnd.chance(1, 3) {
		if other := rnd.intn(count); other != busy[0] {
			busy = append(busy, other)
		}
	}
	for k, idx := range busy {
		name := fmt.Sprintf("h%d", k+1)
		cfg.Conns[idx].Source[0] = name
		in.Hang = append(in.Hang, name)
	}
	next := c20CloneConfig(&cfg)
	ops := []string{}
	// what happens to the first busy connection
	target := &next.Conns[busy[0]]
	removeAt := -1
	switch pick := rnd.intn(10); {
	case pick < 2:
		target.Name += "'"
		ops = append(ops, "busy-modify-name")
	case pick < 3:
		target.Section += "x"
		ops = append(ops, "busy-modify-section")
	case pick < 6:
		ops = append(ops, "busy-"+gen.editLists(target))
	case pick < 7:
		target.Auth += "k"
		ops = append(ops, "busy-modify-misc")
	case pick < 9:
		removeAt = busy[0]
		ops = append(ops, "busy-remove")
	default:
		ops = append(ops, "busy-keep")
	}
	// the others
	idle := []int{}
	for i := range next.Conns {
		if !c20HasInt(busy, i) {
			idle = append(idle, i)
		}
	}
	for range rnd.intn(3) {
		switch rnd.intn(4) {
		case 0:
			next.Conns[vPick(rnd, idle)].Name += "~"
			ops = append(ops, "idle-modify-name")
		case 1:
			ops = append(ops, "idle-"+gen.editLists(&next.Conns[vPick(rnd, idle)]))
		case 2:
			next.Conns = append(next.Conns, gen.freshConn())
			ops = append(ops, "add-conn")
		default:
			if len(busy) > 1 {
				next.Conns[busy[1]].Name += "'"
				ops = append(ops, "busy2-modify-name")
			}
		}
	}
	if removeAt >= 0 {
		next.Conns = append(next.Conns[:removeAt], next.Conns[removeAt+1:]...)
	} else if rnd.chance(1, 4) && len(idle) > 1 {
		pos := idle[rnd.intn(len(idle))]
		next.Conns = append(next.Conns[:pos], next.Conns[pos+1:]...)
		ops = append(ops, "idle-remove")
	}
	if rnd.chance(1, 4) && len(next.Conns) > 1 {
		next.Conns = append(next.Conns[1:], next.Conns[0])
		ops = append(ops, "reorder")
	}
	in.Steps = []c20Config{cfg, next}

	return in, ops
}

func c20HasInt(list []int, val int) bool {
	for _, x := range list {
		if x == val {
			return true
		}
	}

	return false
}

// c20BusyUsable: two accepted configurations, the client's listener in both.
func c20BusyUsable(in *c20Input) bool {
	if len(in.Steps) != 2 {
		return false
	}
	for i := range in.Steps {
		if c20MayExit(&in.Steps[i]) || !c20Has(in.Steps[i].Listen, in.Steps[0].Listen[0]) {
			return false
		}
	}

	return true
}

func init() {
	verifRegister("c20busy", "C20: clients query with a time limit while a reload waits for a backend that does not answer", c20BusyMain)
}

func c20BusyMain(args []string) int {
	flags := verifParseStreamFlags("c20busy", args)
	meta := newVMeta("busy", fmt.Sprintf("generated: 2-5 connections on listener L0, one or two of them to a scripted backend that accepts the request and does not answer "+
		"(NetTimeout %d s), the others to sockets where nothing listens; one reload that changes (name, section, a list attribute, auth), removes or keeps the busy "+
		"connection and adds / changes / removes / reorders idle ones, sent while the busy peer waits for its answer; %d client goroutines send GET sites with a limit "+
		"of %d ms while the reload waits (until %d answers or the first miss, then the backend drops its connections) and in the steady states before and after. "+
		"non-trivial: the reload was still waiting for a backend when the clients had their answers; distinct by input",
		c20BusyNetTimeout, c20BusyClients, c20BusyLimit.Milliseconds(), c20BusyAnswers))
	inputs := []*c20Input{}
	opsOf := [][]string{}
	if flags.replay != "" {
		vReadReplay(flags.replay, &inputs)
	} else {
		rnd := newVRand(flags.seed ^ 0xB5C20)
		for range flags.n {
			in, ops := c20BusyGenerate(rnd.fork())
			inputs = append(inputs, in)
			opsOf = append(opsOf, ops)
		}
	}
	c20NetTimeout = c20BusyNetTimeout
	var sb strings.Builder
	sb.WriteString("From LMD Require Import C20.Run4.\nOpen Scope N_scope.\n")
	names := []string{}
	for i, in := range inputs {
		res := &c20BusyResult{}
		if c20BusyUsable(in) {
			res = c20BusyCase(in)
		} else {
			in = &c20Input{Steps: []c20Config{}}
		}
		if os.Getenv("VERIF_C20_DEBUG") != "" {
			worst := int64(0)
			for _, r := range res.Resps {
				worst = max(worst, r.Ms)
			}
			fmt.Fprintf(os.Stderr, "c20busy: case %d: %d answers, slowest %d ms, reload waiting=%v took %d ms\n", i, len(res.Resps), worst, res.Waiting, res.WaitMs)
		}
		// distinct (tags, ok, rows) with the longest time each
		slowest := map[string]*c20TimedResp{}
		order := []string{}
		for _, r := range res.Resps {
			text := fmt.Sprintf("%d %d %v %q", r.A, r.B, r.OK, r.Rows)
			if old := slowest[text]; old == nil {
				slowest[text] = r
				order = append(order, text)
			} else if r.Ms > old.Ms {
				slowest[text] = r
			}
		}
		cs := make([]string, 0, len(in.Steps))
		for j := range in.Steps {
			cs = append(cs, c20CoqConfig(&in.Steps[j]))
		}
		rowName := map[[4]string]string{}
		rs := make([]string, 0, len(order))
		overlapping := 0
		for _, text := range order {
			r := slowest[text]
			if r.A == 3 || r.B == 3 {
				overlapping++
			}
			rows := make([]string, 0, len(r.Rows))
			for _, row := range r.Rows {
				name, ok := rowName[row]
				if !ok {
					name = fmt.Sprintf("c%d_r%d", i, len(rowName))
					rowName[row] = name
					fmt.Fprintf(&sb, "Definition %s : srow := (%s, %s, %s, %s).\n", name, coqStr(row[0]), coqStr(row[1]), coqStr(row[2]), coqStr(row[3]))
				}
				rows = append(rows, name)
			}
			rs = append(rs, fmt.Sprintf("(mkTResp %d %d %s %s %d)", r.A, r.B, coqBool(r.OK), coqList(rows), r.Ms))
		}
		fmt.Fprintf(&sb, "Definition c%d : bcase := mkBCase\n %s %d\n %s.\n", i, coqList(cs), c20BusyLimit.Milliseconds(), coqList(rs))
		names = append(names, fmt.Sprintf("c%d", i))
		if i < len(opsOf) {
			for _, op := range opsOf[i] {
				meta.count("edit=" + op)
			}
		}
		if res.Waiting {
			meta.count("reload-still-waiting-when-clients-were-served")
		} else {
			meta.count("reload-finished-by-itself")
		}
		meta.Histogram["answers"] += len(res.Resps)
		meta.Histogram["distinct-answers-overlapping-the-reload"] += overlapping
		buf, _ := json.Marshal(in)
		meta.add(string(buf), res.Waiting, in)
	}
	sb.WriteString("Definition cases : list bcase := " + coqList(names) + ".\n")
	sb.WriteString("Definition M := Eval vm_compute in busy_mismatches cases.\nPrint M.\n")
	if err := os.WriteFile(flags.out, []byte(sb.String()), 0o644); err != nil {
		panic(err)
	}
	meta.write(flags.meta)

	return 0
}
