//go:build verif

package lmd

import (
	"bufio"
	"bytes"
	"encoding/json"
	"fmt"
	"io"
	"net"
	"os"
	"os/exec"
	"path/filepath"
	"runtime"
	"sort"
	"strings"
	"syscall"
	"time"
)

// C20: configuration reload. One case = a sequence of configurations; the
// first one starts the real main loop (Daemon.mainLoop, config read from a
// TOML file), every further one is applied the way SIGHUP does it: the file is
// rewritten and SIGHUP is sent through Daemon.mainSignalChannel, mainLoop
// returns -1 and is entered again exactly like in Main(). After each step the
// daemon is observed through a real unix socket client (`GET sites`) and, for
// object identity, through the Daemon's maps.

// c20Conn is one [[Connections]] block. Source/Fallback hold symbolic names,
// the path is <sockdir>/<name>.sock where nothing listens.
type c20Conn struct {
	ID       string   `json:"id"`
	Name     string   `json:"name"`
	Source   []string `json:"source"`
	Fallback []string `json:"fallback,omitempty"`
	Section  string   `json:"section,omitempty"`
	Flags    []string `json:"flags,omitempty"`
	Auth     string   `json:"auth,omitempty"`
	Remote   string   `json:"remote_name,omitempty"`
	NoCfg    int      `json:"noconfigtool,omitempty"`
	TLSSkip  int      `json:"tlsskipverify,omitempty"`
	Proxy    string   `json:"proxy,omitempty"`
	TLSCert  string   `json:"tlscertificate,omitempty"`
	TLSKey   string   `json:"tlskey,omitempty"`
	TLSCA    string   `json:"tlsca,omitempty"`
	TLSName  string   `json:"tlsservername,omitempty"`
}

// c20Config is one configuration file: listeners (symbolic names of unix
// sockets below the socket directory) and connections in file order.
type c20Config struct {
	Listen []string  `json:"listen"`
	Conns  []c20Conn `json:"conns"`
}

type c20Input struct {
	Steps []c20Config `json:"steps"`
	// Hang (stream busy): symbolic source names behind which a scripted backend
	// accepts connections, reads the request and does not answer
	Hang []string `json:"hang,omitempty"`
}

// c20PeerObs is one row of `GET sites` plus what the harness knows about the
// object behind it.
type c20PeerObs struct {
	ID      string `json:"id"`
	Name    string `json:"name"`
	Section string `json:"section"`
	Addr    string `json:"addr"`  // symbolic name of the address the peer currently points at
	Token   int64  `json:"token"` // cache token (bytes_received column), see c20Run.settle
	Kept    bool   `json:"kept"`  // same *Peer as the one with this id after the previous step
	Fresh   bool   `json:"fresh"` // *Peer never seen before in this case
	Running bool   `json:"running"`
}

type c20ListenObs struct {
	Name string `json:"name"`
	Kept bool   `json:"kept"`
	Open bool   `json:"open"` // a client can connect and gets the same sites answer
}

type c20StepObs struct {
	Fatal      bool           `json:"fatal"`      // the daemon process exited instead of applying the step
	Order      []string       `json:"order"`      // Daemon.PeerMapOrder
	MapKeys    []string       `json:"mapkeys"`    // sorted keys of Daemon.PeerMap
	Rows       []c20PeerObs   `json:"rows"`       // rows of GET sites in response order
	OldRunning []string       `json:"oldrunning"` // ids of the previous step whose old object is not kept but still runs
	Listeners  []c20ListenObs `json:"listeners"`  // Daemon.Listeners, sorted by name
	StrayOpen  []string       `json:"strayopen"`  // listener names of the case that are not configured but accept connections
	Consistent bool           `json:"consistent"` // all open listeners gave the same sites answer
}

func init() {
	verifRegister("c20reload", "C20: drive the real main loop through sequences of configuration reloads", c20ReloadMain)
	verifRegister("c20child", "C20: run one case (JSON on stdin) in this process, one JSON observation per line", c20ChildMain)
}

// ---- configuration file ---------------------------------------------------------

func c20Quote(s string) string {
	var sb strings.Builder
	sb.WriteByte('"')
	for _, r := range s {
		switch {
		case r == '"' || r == '\\':
			sb.WriteByte('\\')
			sb.WriteRune(r)
		case r < 0x20 || r == 0x7f:
			fmt.Fprintf(&sb, "\\u%04X", r)
		default:
			sb.WriteRune(r)
		}
	}
	sb.WriteByte('"')

	return sb.String()
}

func c20QuoteList(dir string, names []string) string {
	parts := make([]string, 0, len(names))
	for _, n := range names {
		parts = append(parts, c20Quote(c20Path(dir, n)))
	}

	return "[" + strings.Join(parts, ", ") + "]"
}

func c20Path(dir, name string) string { return filepath.Join(dir, name+".sock") }

func c20Symbolic(dir, path string) string {
	if strings.HasPrefix(path, dir+"/") && strings.HasSuffix(path, ".sock") {
		return strings.TrimSuffix(strings.TrimPrefix(path, dir+"/"), ".sock")
	}

	return path
}

// c20Toml renders the configuration file. Empty lists and zero values are
// left out (an explicit `flags = []` is a different definition for
// Connection.Equals than an absent one; not generated, see notes/C20.md).
func c20Toml(dir string, cfg *c20Config) string {
	var sb strings.Builder
	sb.WriteString("LogLevel = " + c20Quote(verifEnv("VERIF_LOGLEVEL", "off")) + "\nLogFile = \"stderr\"\n")
	fmt.Fprintf(&sb, "Updateinterval = 3600\nConnectTimeout = 2\nNetTimeout = %d\n", c20NetTimeout)
	sb.WriteString("Listen = " + c20QuoteList(dir, cfg.Listen) + "\n\n")
	for i := range cfg.Conns {
		conn := &cfg.Conns[i]
		sb.WriteString("[[Connections]]\n")
		sb.WriteString("name = " + c20Quote(conn.Name) + "\n")
		sb.WriteString("id = " + c20Quote(conn.ID) + "\n")
		if len(conn.Source) > 0 {
			sb.WriteString("source = " + c20QuoteList(dir, conn.Source) + "\n")
		}
		if len(conn.Fallback) > 0 {
			sb.WriteString("fallback = " + c20QuoteList(dir, conn.Fallback) + "\n")
		}
		if conn.Section != "" {
			sb.WriteString("section = " + c20Quote(conn.Section) + "\n")
		}
		if len(conn.Flags) > 0 {
			parts := []string{}
			for _, f := range conn.Flags {
				parts = append(parts, c20Quote(f))
			}
			sb.WriteString("flags = [" + strings.Join(parts, ", ") + "]\n")
		}
		if conn.Auth != "" {
			sb.WriteString("auth = " + c20Quote(conn.Auth) + "\n")
		}
		if conn.Remote != "" {
			sb.WriteString("remote_name = " + c20Quote(conn.Remote) + "\n")
		}
		if conn.NoCfg != 0 {
			fmt.Fprintf(&sb, "noconfigtool = %d\n", conn.NoCfg)
		}
		if conn.TLSSkip != 0 {
			fmt.Fprintf(&sb, "tlsskipverify = %d\n", conn.TLSSkip)
		}
		for _, kv := range [][2]string{{"proxy", conn.Proxy}, {"tlscertificate", conn.TLSCert}, {"tlskey", conn.TLSKey},
			{"tlsca", conn.TLSCA}, {"tlsservername", conn.TLSName}} {
			if kv[1] != "" {
				sb.WriteString(kv[0] + " = " + c20Quote(kv[1]) + "\n")
			}
		}
		sb.WriteString("\n")
	}

	return sb.String()
}

// c20MayExit says whether applying the configuration may terminate the process
// (duplicate id, nothing to listen on, no connection, connection without
// source). It is only a safety device that moves the case into a child
// process; whether the daemon is *expected* to exit is decided by the model.
func c20MayExit(cfg *c20Config) bool {
	if len(cfg.Listen) == 0 || len(cfg.Conns) == 0 {
		return true
	}
	seen := map[string]bool{}
	for i := range cfg.Conns {
		if seen[cfg.Conns[i].ID] || len(cfg.Conns[i].Source) == 0 {
			return true
		}
		seen[cfg.Conns[i].ID] = true
	}

	return false
}

// ---- driver -----------------------------------------------------------------------

const c20Deadline = 20 * time.Second

// c20NetTimeout is the NetTimeout of the configuration files (stream busy raises it)
var c20NetTimeout = 2

type c20Run struct {
	lmd           *Daemon
	dir           string
	cfgFile       string
	done          chan int
	started       bool
	prevPeers     map[string]*Peer
	seenPeers     map[*Peer]bool
	allPeers      []*Peer
	prevListeners map[string]*Listener
	universe      []string // all listener names of the case
	tok           int64
	live          bool // the sources are scripted backends that answer (stream sources): peers come up
}

// c20CleanStale removes socket directories of harness processes that died.
func c20CleanStale(base string) {
	entries, err := os.ReadDir(base)
	if err != nil {
		return
	}
	for _, e := range entries {
		var pid int
		if n, _ := fmt.Sscanf(e.Name(), "p%d", &pid); n != 1 || pid == os.Getpid() {
			continue
		}
		if err := syscall.Kill(pid, 0); err == syscall.ESRCH {
			os.RemoveAll(filepath.Join(base, e.Name()))
		}
	}
}

func c20NewRun(in *c20Input) *c20Run {
	c20CleanStale(verifEnv("VERIF_SOCKDIR", "/verif/work/sock"))
	dir := filepath.Join(verifEnv("VERIF_SOCKDIR", "/verif/work/sock"), fmt.Sprintf("p%d", os.Getpid()))
	if err := os.MkdirAll(dir, 0o755); err != nil {
		panic(err)
	}
	run := &c20Run{
		lmd:           NewLMDInstance(),
		dir:           dir,
		cfgFile:       filepath.Join(dir, "lmd.ini"),
		done:          make(chan int, 1),
		prevPeers:     map[string]*Peer{},
		seenPeers:     map[*Peer]bool{},
		prevListeners: map[string]*Listener{},
	}
	names := map[string]bool{}
	for i := range in.Steps {
		for _, l := range in.Steps[i].Listen {
			names[l] = true
		}
	}
	for n := range names {
		run.universe = append(run.universe, n)
	}
	sort.Strings(run.universe)

	return run
}

// apply writes the configuration file and makes the daemon (re)load it; it
// returns when the main loop has finished initializeListeners/initializePeers.
func (r *c20Run) apply(cfg *c20Config) {
	if err := os.WriteFile(r.cfgFile, []byte(c20Toml(r.dir, cfg)), 0o644); err != nil {
		panic(err)
	}
	if !r.started {
		r.started = true
		r.lmd.initChannel = make(chan bool)
		r.lmd.flags.flagConfigFile = configFiles{r.cfgFile}
		go func() {
			// the loop of Main()
			defer r.lmd.logPanicExit()
			for {
				exitCode := r.lmd.mainLoop()
				if exitCode >= 0 {
					r.done <- exitCode

					return
				}
			}
		}()
	} else {
		select {
		case r.lmd.mainSignalChannel <- syscall.SIGHUP:
		case <-time.After(c20Deadline):
			panic("c20: main loop does not take the reload signal")
		}
	}
	select {
	case <-r.lmd.initChannel:
	case <-time.After(c20Deadline):
		panic("c20: main loop did not finish initialisation")
	}
}

func c20WaitFor(limit time.Duration, cond func() bool) bool {
	deadline := time.Now().Add(limit)
	for !cond() {
		if time.Now().After(deadline) {
			if os.Getenv("VERIF_C20_DEBUG") != "" {
				buf := make([]byte, 2048)
				fmt.Fprintf(os.Stderr, "c20: wait timed out at\n%s\n", buf[:runtime.Stack(buf, false)])
			}
			return false
		}
		time.Sleep(200 * time.Microsecond)
	}

	return true
}

// settle waits until everything the reload started asynchronously has come to
// rest: new peers have made (and failed) their first connection attempt,
// stopped update loops have returned, closed listeners have left the map.
func (r *c20Run) settle() (peers map[string]*Peer, order []string, listeners map[string]*Listener) {
	lmd := r.lmd
	lmd.PeerMapLock.RLock()
	peers = make(map[string]*Peer, len(lmd.PeerMap))
	for id, p := range lmd.PeerMap {
		peers[id] = p
	}
	order = append([]string{}, lmd.PeerMapOrder...)
	lmd.PeerMapLock.RUnlock()

	for _, p := range peers {
		peer := p
		// Nodes.Initialize has started every paused peer before the main loop
		// reported back; wait for the first (failing) connection attempt
		// (updateLoop sets errorLogged when InitAllTables has returned with an
		// error; until then the parallel table fetches keep rotating peerAddr)
		c20WaitFor(5*time.Second, func() bool {
			if r.live {
				return peer.peerState.Get() == PeerStatusUp && peer.data.Load() != nil && !peer.paused.Load()
			}

			return (peer.peerState.Get() != PeerStatusPending && peer.errorLogged.Load()) || peer.paused.Load()
		})
	}
	for id, old := range r.prevPeers {
		if peers[id] != old {
			peer := old
			c20WaitFor(2*time.Second, func() bool { return peer.paused.Load() })
		}
	}

	lmd.ListenersLock.RLock()
	listeners = make(map[string]*Listener, len(lmd.Listeners))
	for addr, l := range lmd.Listeners {
		listeners[addr] = l
	}
	lmd.ListenersLock.RUnlock()
	// a closed listener's goroutine removes its address from Daemon.Listeners
	// when it returns (Listener.handle, deferred); wait until only the
	// goroutines of the listeners in the map are left, so that a late removal
	// cannot hit a listener that a later step opens under the same address.
	closed := false
	for addr, old := range r.prevListeners {
		if listeners[addr] != old {
			closed = true
		}
	}
	if closed {
		buf := make([]byte, 4<<20)
		c20WaitFor(2*time.Second, func() bool {
			dump := string(buf[:runtime.Stack(buf, true)])

			return strings.Count(dump, "(*Listener).handle(") <= len(listeners)
		})
	}

	return peers, order, listeners
}

// c20Query sends one request over a unix socket and returns the decoded rows.
func c20Query(path, query string) ([][]interface{}, error) {
	return c20QueryWithin(path, query, 10*time.Second)
}

// c20QueryWithin: connecting, sending and the complete answer within limit.
func c20QueryWithin(path, query string, limit time.Duration) ([][]interface{}, error) {
	start := time.Now()
	conn, err := net.DialTimeout("unix", path, min(limit, 2*time.Second))
	if err != nil {
		return nil, err
	}
	defer conn.Close()
	_ = conn.SetDeadline(start.Add(limit))
	if _, err = conn.Write([]byte(query)); err != nil {
		return nil, err
	}
	if uc, ok := conn.(*net.UnixConn); ok {
		_ = uc.CloseWrite()
	}
	raw, err := io.ReadAll(conn)
	if err != nil {
		return nil, err
	}
	rows := [][]interface{}{}
	dec := json.NewDecoder(bytes.NewReader(raw))
	dec.UseNumber()
	if err = dec.Decode(&rows); err != nil {
		return nil, fmt.Errorf("malformed response %q: %w", raw, err)
	}

	return rows, nil
}

const c20SitesQuery = "GET sites\nColumns: peer_key peer_name addr section bytes_received\nOutputFormat: json\n\n"

func (r *c20Run) observe() *c20StepObs {
	peers, order, listeners := r.settle()
	obs := &c20StepObs{Order: order, Consistent: true}
	for id := range peers {
		obs.MapKeys = append(obs.MapKeys, id)
	}
	sort.Strings(obs.MapKeys)

	// cache tokens: every peer that has none yet gets the next number, in
	// PeerMapOrder order (bytes_received is a counter kept in the peer
	// object and shown in the sites table; nothing is ever received here).
	for _, id := range order {
		if p := peers[id]; p != nil && p.bytesReceived.Load() == 0 {
			r.tok++
			p.bytesReceived.Store(r.tok)
		}
	}

	// listeners
	lnames := []string{}
	for addr := range listeners {
		lnames = append(lnames, addr)
	}
	sort.Strings(lnames)
	var first string
	var firstRows [][]interface{}
	for _, addr := range lnames {
		name := c20Symbolic(r.dir, addr)
		lo := c20ListenObs{Name: name, Kept: r.prevListeners[addr] == listeners[addr]}
		rows, err := c20Query(addr, c20SitesQuery)
		if err == nil {
			lo.Open = true
			// sites rows are collected from the peers concurrently: any order
			sort.Slice(rows, func(i, j int) bool { return fmt.Sprintf("%v", rows[i]) < fmt.Sprintf("%v", rows[j]) })
			// the address column may legitimately move between two queries
			// (a peer walks through its sources), compare the other columns
			text := ""
			for _, row := range rows {
				if len(row) == 5 {
					text += fmt.Sprintf("%v %v %v %v\n", row[0], row[1], row[3], row[4])
				} else {
					text += fmt.Sprintf("%v\n", row)
				}
			}
			if firstRows == nil {
				first, firstRows = text, rows
			} else if text != first {
				obs.Consistent = false
			}
		}
		obs.Listeners = append(obs.Listeners, lo)
	}
	for _, name := range r.universe {
		path := c20Path(r.dir, name)
		if _, ok := listeners[path]; ok {
			continue
		}
		if _, err := c20Query(path, c20SitesQuery); err == nil {
			obs.StrayOpen = append(obs.StrayOpen, name)
		}
	}

	// rows
	for _, row := range firstRows {
		if len(row) != 5 {
			panic(fmt.Sprintf("c20: sites row of unexpected width: %v", row))
		}
		po := c20PeerObs{
			ID:      fmt.Sprintf("%v", row[0]),
			Name:    fmt.Sprintf("%v", row[1]),
			Addr:    c20Symbolic(r.dir, fmt.Sprintf("%v", row[2])),
			Section: fmt.Sprintf("%v", row[3]),
		}
		if num, ok := row[4].(json.Number); ok {
			po.Token, _ = num.Int64()
		}
		if p := peers[po.ID]; p != nil {
			po.Kept = r.prevPeers[po.ID] == p
			po.Fresh = !r.seenPeers[p]
			po.Running = !p.paused.Load()
		}
		obs.Rows = append(obs.Rows, po)
	}

	// old objects that should have been stopped
	for id, old := range r.prevPeers {
		if peers[id] != old && !old.paused.Load() {
			obs.OldRunning = append(obs.OldRunning, id)
		}
	}
	sort.Strings(obs.OldRunning)

	for _, p := range peers {
		if !r.seenPeers[p] {
			r.seenPeers[p] = true
			r.allPeers = append(r.allPeers, p)
		}
	}
	r.prevPeers = peers
	r.prevListeners = listeners

	return obs
}

func (r *c20Run) shutdown() {
	if r.started {
		select {
		case r.lmd.mainSignalChannel <- syscall.SIGTERM:
			select {
			case <-r.done:
			case <-time.After(c20Deadline):
				panic("c20: main loop does not terminate")
			}
		case <-time.After(c20Deadline):
			panic("c20: main loop does not take the termination signal")
		}
		// surviving update loops notice the closed shutdown channel only at
		// their next tick (500ms); stop them directly instead of waiting
		for _, p := range r.allPeers {
			peer := p
			deadline := time.Now().Add(2 * time.Second)
			for !peer.paused.Load() && time.Now().Before(deadline) {
				select {
				case peer.stopChannel <- true:
				case <-time.After(200 * time.Microsecond):
				}
			}
		}
	}
	os.RemoveAll(r.dir)
}

// c20RunCase runs all steps in this process.
func c20RunCase(in *c20Input, each func(i int, obs *c20StepObs)) []*c20StepObs {
	run := c20NewRun(in)
	defer run.shutdown()
	res := []*c20StepObs{}
	for i := range in.Steps {
		if each != nil {
			each(i, nil)
		}
		t0 := time.Now()
		run.apply(&in.Steps[i])
		t1 := time.Now()
		obs := run.observe()
		if os.Getenv("VERIF_C20_DEBUG") != "" {
			fmt.Fprintf(os.Stderr, "c20: step %d apply %s observe %s\n", i, t1.Sub(t0), time.Since(t1))
		}
		res = append(res, obs)
		if each != nil {
			each(i, obs)
		}
	}

	return res
}

// c20ChildMain: the case comes on stdin; "BEGIN i" before a step is applied,
// "OBS <json>" after it was observed.
func c20ChildMain(_ []string) int {
	in := &c20Input{}
	if err := json.NewDecoder(os.Stdin).Decode(in); err != nil {
		fmt.Fprintf(os.Stderr, "c20child: %s\n", err)

		return 1
	}
	out := bufio.NewWriter(os.Stdout)
	c20RunCase(in, func(i int, obs *c20StepObs) {
		if obs == nil {
			fmt.Fprintf(out, "BEGIN %d\n", i)
		} else {
			buf, _ := json.Marshal(obs)
			fmt.Fprintf(out, "OBS %s\n", buf)
		}
		out.Flush()
	})
	fmt.Fprintf(out, "END\n")
	out.Flush()

	return 0
}

// c20RunInChild runs the case in a child process; a step during which the
// process exits with lmd's ExitCritical is observed as Fatal.
func c20RunInChild(in *c20Input) []*c20StepObs {
	buf, _ := json.Marshal(in)
	cmd := exec.Command(os.Args[0], "c20child")
	cmd.Stdin = bytes.NewReader(buf)
	var stdout, stderr bytes.Buffer
	cmd.Stdout, cmd.Stderr = &stdout, &stderr
	err := cmd.Run()
	res := []*c20StepObs{}
	begun, ended := -1, false
	for _, line := range strings.Split(stdout.String(), "\n") {
		switch {
		case strings.HasPrefix(line, "BEGIN "):
			fmt.Sscanf(line, "BEGIN %d", &begun)
		case strings.HasPrefix(line, "OBS "):
			obs := &c20StepObs{}
			if jerr := json.Unmarshal([]byte(line[4:]), obs); jerr != nil {
				panic(jerr)
			}
			res = append(res, obs)
		case line == "END":
			ended = true
		}
	}
	if ended && err == nil {
		return res
	}
	code := -1
	if cmd.ProcessState != nil {
		code = cmd.ProcessState.ExitCode()
	}
	if code != ExitCritical || begun != len(res) {
		panic(fmt.Sprintf("c20: child failed unexpectedly (exit %d, step %d, %d observations): %s", code, begun, len(res), stderr.String()))
	}
	// clean up what the dead child left behind
	if cmd.ProcessState != nil {
		os.RemoveAll(filepath.Join(verifEnv("VERIF_SOCKDIR", "/verif/work/sock"), fmt.Sprintf("p%d", cmd.ProcessState.Pid())))
	}

	return append(res, &c20StepObs{Fatal: true})
}

func c20Observe(in *c20Input) []*c20StepObs {
	for i := range in.Steps {
		if c20MayExit(&in.Steps[i]) {
			return c20RunInChild(in)
		}
	}

	return c20RunCase(in, nil)
}

// ---- Coq emission -------------------------------------------------------------------

func coqN(v int64) string { return fmt.Sprintf("%d", v) }

func c20CoqConn(conn *c20Conn) string {
	misc := []string{conn.Auth, conn.Remote, fmt.Sprintf("%d", conn.NoCfg), fmt.Sprintf("%d", conn.TLSSkip),
		conn.Proxy, conn.TLSCert, conn.TLSKey, conn.TLSCA, conn.TLSName}

	return fmt.Sprintf("(mkConn %s %s %s %s %s %s %s)", coqStr(conn.ID), coqStr(conn.Name), coqStrList(conn.Source),
		coqStrList(conn.Fallback), coqStr(conn.Section), coqStrList(conn.Flags), coqStrList(misc))
}

func c20CoqConfig(cfg *c20Config) string {
	conns := make([]string, 0, len(cfg.Conns))
	for i := range cfg.Conns {
		conns = append(conns, c20CoqConn(&cfg.Conns[i]))
	}

	return fmt.Sprintf("(mkConfig %s %s)", coqStrList(cfg.Listen), coqList(conns))
}

func c20CoqObs(obs *c20StepObs) string {
	if obs.Fatal {
		return "ObsFatal"
	}
	rows := make([]string, 0, len(obs.Rows))
	for i := range obs.Rows {
		row := &obs.Rows[i]
		rows = append(rows, fmt.Sprintf("(mkRow %s %s %s %s %s %s %s %s)", coqStr(row.ID), coqStr(row.Name), coqStr(row.Section),
			coqStr(row.Addr), coqN(row.Token), coqBool(row.Kept), coqBool(row.Fresh), coqBool(row.Running)))
	}
	ls := make([]string, 0, len(obs.Listeners))
	for _, l := range obs.Listeners {
		ls = append(ls, fmt.Sprintf("(%s, %s, %s)", coqStr(l.Name), coqBool(l.Kept), coqBool(l.Open)))
	}

	return fmt.Sprintf("(ObsOk (mkSobs %s %s %s %s %s %s %s))", coqStrList(obs.Order), coqStrList(obs.MapKeys), coqList(rows),
		coqStrList(obs.OldRunning), coqList(ls), coqStrList(obs.StrayOpen), coqBool(obs.Consistent))
}

func c20Coq(idx int, in *c20Input, obs []*c20StepObs) string {
	steps := make([]string, 0, len(in.Steps))
	for i := range in.Steps {
		steps = append(steps, c20CoqConfig(&in.Steps[i]))
	}
	os := make([]string, 0, len(obs))
	for _, o := range obs {
		os = append(os, c20CoqObs(o))
	}

	return fmt.Sprintf("Definition c%d : case := mkCase\n %s\n %s.\n", idx, coqList(steps), coqList(os))
}

// ---- generator ----------------------------------------------------------------------

type c20Gen struct {
	rnd    *vRand
	wide   bool // many connections, edits at the front of the list (stream serve)
	lists  bool // mostly multi-source connections and edits of the list attributes (stream sources)
	plain  bool // no flag lmd knows (the scripted backends are Naemon cores)
	nextID int
	nextS  int
	nextL  int
}

var (
	c20Names    = []string{"alpha", "Site B", "zürich", "x", "naemon \"core\"", "back\\slash", "omd-prod", "東京", "a.b.c", ""}
	c20Sections = []string{"", "", "eu", "eu/de", "Lab 1"}
)

func (g *c20Gen) freshSource() string { g.nextS++; return fmt.Sprintf("s%d", g.nextS) }

func (g *c20Gen) freshListener() string { g.nextL++; return fmt.Sprintf("L%d", g.nextL) }

// c20FlagNames: lmd knows "icinga2" (any case); everything else is only warned about
var c20FlagNames = []string{"icinga2", "custom", "tag-b", "ICINGA2", "x y", "naemon"}

func (g *c20Gen) freshFlag(have []string) string {
	for {
		flag := vPick(g.rnd, c20FlagNames)
		if g.plain && strings.EqualFold(flag, "icinga2") {
			continue
		}
		if !c20Has(have, flag) {
			return flag
		}
	}
}

func c20Has(list []string, val string) bool {
	for _, x := range list {
		if x == val {
			return true
		}
	}

	return false
}

func (g *c20Gen) freshConn() c20Conn {
	g.nextID++
	ids := []string{"id%d", "site-%d", "b%d", "Ü%d", "k %d"}
	conn := c20Conn{ID: fmt.Sprintf(vPick(g.rnd, ids), g.nextID), Name: vPick(g.rnd, c20Names), Source: []string{g.freshSource()}}
	if g.rnd.chance(1, 3) || (g.lists && g.rnd.chance(2, 3)) {
		conn.Source = append(conn.Source, g.freshSource())
		if g.rnd.chance(1, 3) {
			conn.Source = append(conn.Source, g.freshSource())
		}
	}
	if g.rnd.chance(1, 5) || (g.lists && g.rnd.chance(1, 3)) {
		conn.Fallback = []string{g.freshSource()}
		if g.rnd.chance(1, 2) {
			conn.Fallback = append(conn.Fallback, g.freshSource())
		}
	}
	conn.Section = vPick(g.rnd, c20Sections)
	if g.rnd.chance(1, 4) {
		conn.Flags = []string{g.freshFlag(nil)}
		for len(conn.Flags) < 3 && g.rnd.chance(1, 2) {
			conn.Flags = append(conn.Flags, g.freshFlag(conn.Flags))
		}
	}

	return conn
}

// editList changes a list attribute (entries are pairwise different): another
// order of the same entries, one entry more (front, middle, end), one entry
// less (first, last), first entry replaced. minLen is the shortest result allowed.
func (g *c20Gen) editList(list []string, minLen int, fresh func() string) ([]string, string) {
	rnd := g.rnd
	res := append([]string{}, list...)
	num := len(res)
	pick := rnd.intn(10)
	switch {
	case pick < 4 && num >= 2:
		switch rnd.intn(3) {
		case 0:
			res[0], res[1] = res[1], res[0]
		case 1:
			res = append(res[1:], res[0])
		default:
			for i, j := 0, num-1; i < j; i, j = i+1, j-1 {
				res[i], res[j] = res[j], res[i]
			}
		}

		return res, "permute"
	case pick < 6 && num > minLen:
		if rnd.chance(1, 2) {
			return res[1:], "drop-first"
		}

		return res[:num-1], "drop-last"
	case pick < 7 && num >= 1:
		res[0] = fresh()

		return res, "replace-first"
	}
	pos := 0
	if rnd.chance(1, 2) {
		pos = rnd.intn(num + 1)
	}
	res = append(res[:pos], append([]string{fresh()}, res[pos:]...)...)
	if pos == 0 {
		return res, "prepend"
	}

	return res, "extend"
}

func c20NilIfEmpty(list []string) []string {
	if len(list) == 0 {
		return nil
	}

	return list
}

// editLists changes one list attribute of the connection.
func (g *c20Gen) editLists(conn *c20Conn) string {
	var how string
	switch pick := g.rnd.intn(10); {
	case pick < 5:
		conn.Source, how = g.editList(conn.Source, 1, g.freshSource)

		return "modify-source-" + how
	case pick < 8:
		conn.Fallback, how = g.editList(conn.Fallback, 0, g.freshSource)
		conn.Fallback = c20NilIfEmpty(conn.Fallback)

		return "modify-fallback-" + how
	}
	flags := conn.Flags
	conn.Flags, how = g.editList(conn.Flags, 0, func() string { return g.freshFlag(flags) })
	conn.Flags = c20NilIfEmpty(conn.Flags)

	return "modify-flags-" + how
}

func c20CloneConfig(cfg *c20Config) c20Config {
	buf, _ := json.Marshal(cfg)
	var res c20Config
	_ = json.Unmarshal(buf, &res)

	return res
}

// edit returns the next configuration and the name of the edit.
func (g *c20Gen) edit(prev *c20Config) (c20Config, string) {
	cfg := c20CloneConfig(prev)
	rnd := g.rnd
	nc := len(cfg.Conns)
	pick := rnd.intn(100)
	if g.wide && nc > 0 && rnd.chance(2, 3) {
		// change one of the first connections: everything behind it moves in PeerMapOrder
		conn := &cfg.Conns[rnd.intn(min(nc, 3))]
		if rnd.chance(1, 2) {
			conn.Source = []string{g.freshSource()}

			return cfg, "modify-source"
		}
		conn.Name += "'"

		return cfg, "modify-name"
	}
	if nc > 0 && ((g.lists && rnd.chance(3, 5)) || (!g.lists && !g.wide && rnd.chance(1, 5))) {
		return cfg, g.editLists(&cfg.Conns[rnd.intn(nc)])
	}
	switch {
	case pick < 10:
		return cfg, "noop"
	case pick < 20:
		conn := g.freshConn()
		pos := rnd.intn(nc + 1)
		cfg.Conns = append(cfg.Conns[:pos], append([]c20Conn{conn}, cfg.Conns[pos:]...)...)

		return cfg, "add-conn"
	case pick < 29 && nc > 1:
		pos := rnd.intn(nc)
		cfg.Conns = append(cfg.Conns[:pos], cfg.Conns[pos+1:]...)

		return cfg, "remove-conn"
	case pick < 53 && nc > 0:
		conn := &cfg.Conns[rnd.intn(nc)]
		switch rnd.intn(8) {
		case 0:
			conn.Name += "'"

			return cfg, "modify-name"
		case 1, 2:
			conn.Source = []string{g.freshSource()}
			if rnd.chance(1, 3) {
				conn.Source = append(conn.Source, g.freshSource())
			}

			return cfg, "modify-source"
		case 3:
			conn.Source = append(conn.Source, g.freshSource())

			return cfg, "modify-source-append"
		case 4:
			if len(conn.Flags) == 0 {
				conn.Flags = []string{g.freshFlag(nil)}
			} else {
				conn.Flags = nil
			}

			return cfg, "modify-flags"
		case 5:
			conn.Section += "x"

			return cfg, "modify-section"
		case 6:
			if len(conn.Fallback) == 0 {
				conn.Fallback = []string{g.freshSource()}
			} else {
				conn.Fallback = nil
			}

			return cfg, "modify-fallback"
		default:
			// the scalar settings (unix sockets never look at the tls/proxy ones)
			switch rnd.intn(9) {
			case 0:
				conn.Auth += "k"
			case 1:
				conn.Remote += "r"
			case 2:
				conn.NoCfg = 1 - conn.NoCfg
			case 3:
				conn.TLSSkip = 1 - conn.TLSSkip
			case 4:
				conn.Proxy += "http://proxy.invalid:3128"[:rnd.intn(25)+1]
			case 5:
				conn.TLSCert += "/etc/lmd/client.pem"[:rnd.intn(19)+1]
			case 6:
				conn.TLSKey += "/etc/lmd/client.key"[:rnd.intn(19)+1]
			case 7:
				conn.TLSCA += "/etc/lmd/ca.pem"[:rnd.intn(15)+1]
			default:
				conn.TLSName += "core.example"[:rnd.intn(12)+1]
			}

			return cfg, "modify-misc"
		}
	case pick < 62 && nc > 1:
		switch rnd.intn(3) {
		case 0:
			i, j := rnd.intn(nc), rnd.intn(nc)
			cfg.Conns[i], cfg.Conns[j] = cfg.Conns[j], cfg.Conns[i]
		case 1:
			cfg.Conns = append(cfg.Conns[1:], cfg.Conns[0])
		default:
			for i := nc - 1; i > 0; i-- {
				j := rnd.intn(i + 1)
				cfg.Conns[i], cfg.Conns[j] = cfg.Conns[j], cfg.Conns[i]
			}
		}

		return cfg, "reorder"
	case pick < 66 && nc > 0:
		// replace a connection by a new one with the same settings under another id
		conn := &cfg.Conns[rnd.intn(nc)]
		g.nextID++
		conn.ID = fmt.Sprintf("re%d", g.nextID)

		return cfg, "rename-id"
	case pick < 75:
		cfg.Listen = append(cfg.Listen, g.freshListener())

		return cfg, "add-listener"
	case pick < 84 && len(cfg.Listen) > 1:
		pos := rnd.intn(len(cfg.Listen))
		cfg.Listen = append(cfg.Listen[:pos], cfg.Listen[pos+1:]...)

		return cfg, "remove-listener"
	case pick < 86 && len(cfg.Listen) > 1:
		cfg.Listen = append(cfg.Listen[1:], cfg.Listen[0])

		return cfg, "reorder-listener"
	case pick < 90 && nc > 0:
		// several edits at once: remove one, add one, modify one
		cfg.Conns[rnd.intn(nc)].Source = []string{g.freshSource()}
		cfg.Conns = append(cfg.Conns, g.freshConn())
		if nc > 1 {
			cfg.Conns = cfg.Conns[1:]
		}

		return cfg, "multi"
	case pick < 93 && nc > 0:
		dup := cfg.Conns[rnd.intn(nc)]
		if rnd.chance(1, 2) {
			dup.Source = []string{g.freshSource()}
		}
		cfg.Conns = append(cfg.Conns, dup)

		return cfg, "fatal-duplicate-id"
	case pick < 94:
		cfg.Conns = nil

		return cfg, "fatal-no-connections"
	case pick < 95:
		cfg.Listen = nil

		return cfg, "fatal-no-listeners"
	case pick < 96 && nc > 0:
		cfg.Conns[rnd.intn(nc)].Source = nil

		return cfg, "fatal-no-source"
	}
	// one listener replaced by another one
	cfg.Listen[rnd.intn(len(cfg.Listen))] = g.freshListener()

	return cfg, "replace-listener"
}

func (g *c20Gen) generate(steps int) (*c20Input, []string) {
	cfg := c20Config{Listen: []string{g.freshListener()}}
	if g.rnd.chance(1, 2) {
		cfg.Listen = append(cfg.Listen, g.freshListener())
	}
	count := 1 + g.rnd.intn(4)
	if g.wide {
		count = 16 + g.rnd.intn(12)
	}
	for range count {
		cfg.Conns = append(cfg.Conns, g.freshConn())
	}
	in := &c20Input{Steps: []c20Config{cfg}}
	ops := []string{}
	for range steps {
		next, op := g.edit(&in.Steps[len(in.Steps)-1])
		// bring a removed listener or connection back now and then
		if op == "noop" && len(in.Steps) >= 2 && g.rnd.chance(1, 2) {
			next, op = c20CloneConfig(&in.Steps[len(in.Steps)-2]), "revert"
		}
		in.Steps = append(in.Steps, next)
		ops = append(ops, op)
		if strings.HasPrefix(op, "fatal-") {
			break
		}
	}

	return in, ops
}

func c20ReloadMain(args []string) int {
	flags := verifParseStreamFlags("c20reload", args)
	meta := newVMeta("reload", "generated: a start configuration (1-2 unix listeners, 1-4 connections to sockets where nothing listens) followed by 2..7 edited configurations "+
		"(no-op, revert, add/remove/modify(name,source,flags,section,fallback,misc)/reorder/re-id a connection, add/remove/replace/reorder a listener, several at once; "+
		"terminal: duplicate id, no connection, no listener, no source), each applied through the real mainLoop + SIGHUP path and observed with GET sites over every listener. "+
		"non-trivial: at least one reload that changes the configuration; distinct by input")
	inputs := []*c20Input{}
	opsOf := [][]string{}
	if flags.replay != "" {
		vReadReplay(flags.replay, &inputs)
	} else {
		rnd := newVRand(flags.seed)
		for range flags.n {
			gen := &c20Gen{rnd: rnd.fork()}
			in, ops := gen.generate(2 + rnd.intn(6))
			inputs = append(inputs, in)
			opsOf = append(opsOf, ops)
		}
	}

	var sb strings.Builder
	sb.WriteString("From LMD Require Import C20.Run.\nOpen Scope N_scope.\n")
	names := []string{}
	for i, in := range inputs {
		if len(in.Steps) == 0 {
			in.Steps = []c20Config{}
		}
		obs := c20Observe(in)
		sb.WriteString(c20Coq(i, in, obs))
		names = append(names, fmt.Sprintf("c%d", i))
		meta.count(fmt.Sprintf("steps=%d", len(in.Steps)))
		changed := false
		if i < len(opsOf) {
			for _, op := range opsOf[i] {
				meta.count("edit=" + op)
				if op != "noop" {
					changed = true
				}
			}
		} else {
			changed = len(in.Steps) > 1
		}
		buf, _ := json.Marshal(in)
		meta.add(string(buf), changed, in)
	}
	sb.WriteString("Definition cases : list case := " + coqList(names) + ".\n")
	sb.WriteString("Definition M := Eval vm_compute in mismatches cases.\nPrint M.\n")
	if err := os.WriteFile(flags.out, []byte(sb.String()), 0o644); err != nil {
		panic(err)
	}
	meta.write(flags.meta)

	return 0
}
