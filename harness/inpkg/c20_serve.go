//go:build verif

package lmd

import (
	"bytes"
	"encoding/json"
	"fmt"
	"os"
	"os/exec"
	"path/filepath"
	"sort"
	"strings"
	"sync"
	"sync/atomic"
	"time"
)

// C20, stream "serve": the same reload driver as c20_reload.go, but a client
// goroutine keeps sending `GET sites` over a unix listener that is part of
// every configuration while the reloads happen. Every answer is recorded with
// the reload phase at its start and at its end (tag 2k+1: reload k is running,
// 2k+2: reload k has finished) and judged by the model (coq/theories/C20/Run2.v).

const c20ServeListener = "L0"

// number of client goroutines querying concurrently
const c20ServeClients = 3

const c20ServeQuery = "GET sites\nColumns: peer_key peer_name section addr\nOutputFormat: json\n\n"

type c20Resp struct {
	A, B int
	OK   bool
	Rows [][4]string
}

func (r *c20Resp) key() string { return fmt.Sprintf("%d %d %v %q", r.A, r.B, r.OK, r.Rows) }

type c20Client struct {
	path    string
	dir     string
	tag     atomic.Int64
	stop    atomic.Bool
	wg      sync.WaitGroup
	lock    sync.Mutex
	seen    map[string]bool
	resps   []*c20Resp
	steady  map[int]int // tag -> number of answers that started and ended in it
	total   int
	errText string
}

func (c *c20Client) loop() {
	defer c.wg.Done()
	for !c.stop.Load() {
		tagA := int(c.tag.Load())
		rows, err := c20Query(c.path, c20ServeQuery)
		tagB := int(c.tag.Load())
		if tagA <= 1 && err != nil {
			// the daemon is still starting, nothing listens yet
			time.Sleep(100 * time.Microsecond)

			continue
		}
		resp := &c20Resp{A: tagA, B: tagB, OK: err == nil}
		if err != nil {
			c.lock.Lock()
			c.errText = err.Error()
			c.lock.Unlock()
		}
		for _, row := range rows {
			if len(row) != 4 {
				resp.OK = false

				continue
			}
			resp.Rows = append(resp.Rows, [4]string{fmt.Sprintf("%v", row[0]), fmt.Sprintf("%v", row[1]), fmt.Sprintf("%v", row[2]),
				c20Symbolic(c.dir, fmt.Sprintf("%v", row[3]))})
		}
		sort.Slice(resp.Rows, func(i, j int) bool { return fmt.Sprintf("%q", resp.Rows[i]) < fmt.Sprintf("%q", resp.Rows[j]) })
		c.lock.Lock()
		c.total++
		if tagA == tagB {
			c.steady[tagA]++
		}
		if key := resp.key(); !c.seen[key] {
			c.seen[key] = true
			c.resps = append(c.resps, resp)
		}
		c.lock.Unlock()
	}
}

func (c *c20Client) steadyCount(tag int) int {
	c.lock.Lock()
	defer c.lock.Unlock()

	return c.steady[tag]
}

// c20ServeCase runs the steps with the extra listener and the querying client.
func c20ServeCase(in *c20Input) (steps []c20Config, resps []*c20Resp, total int) {
	for i := range in.Steps {
		if c20MayExit(&in.Steps[i]) {
			break // configurations that end the process belong to stream reload
		}
		cfg := c20CloneConfig(&in.Steps[i])
		listen := []string{c20ServeListener}
		for _, l := range cfg.Listen {
			if l != c20ServeListener {
				listen = append(listen, l)
			}
		}
		cfg.Listen = listen
		steps = append(steps, cfg)
	}
	if len(steps) == 0 {
		return steps, nil, 0
	}
	run := c20NewRun(&c20Input{Steps: steps})
	client := &c20Client{path: c20Path(run.dir, c20ServeListener), dir: run.dir, seen: map[string]bool{}, steady: map[int]int{}}
	client.tag.Store(1)
	for range c20ServeClients {
		client.wg.Add(1)
		go client.loop()
	}
	for i := range steps {
		client.tag.Store(int64(2*i + 1))
		run.apply(&steps[i])
		client.tag.Store(int64(2*i + 2))
		run.observe()
		// at least two answers completely inside the steady phase
		if !c20WaitFor(5*time.Second, func() bool { return client.steadyCount(2*i+2) >= 2 }) {
			client.lock.Lock()
			text := client.errText
			client.lock.Unlock()
			panic(fmt.Sprintf("c20serve: the client gets no answer in the steady phase after reload %d (last error: %s)", i, text))
		}
	}
	client.stop.Store(true)
	client.wg.Wait()
	run.shutdown()

	return steps, client.resps, client.total
}

// c20ServeCoq renders a case; rows repeat in most answers of a case and are
// therefore defined once (parsing the cases file dominates otherwise).
func c20ServeCoq(idx int, steps []c20Config, resps []*c20Resp) string {
	var sb strings.Builder
	cs := make([]string, 0, len(steps))
	for i := range steps {
		cs = append(cs, c20CoqConfig(&steps[i]))
	}
	rowName := map[[4]string]string{}
	rs := make([]string, 0, len(resps))
	for _, r := range resps {
		rows := make([]string, 0, len(r.Rows))
		for _, row := range r.Rows {
			name, ok := rowName[row]
			if !ok {
				name = fmt.Sprintf("c%d_r%d", idx, len(rowName))
				rowName[row] = name
				fmt.Fprintf(&sb, "Definition %s : srow := (%s, %s, %s, %s).\n", name, coqStr(row[0]), coqStr(row[1]), coqStr(row[2]), coqStr(row[3]))
			}
			rows = append(rows, name)
		}
		rs = append(rs, fmt.Sprintf("(mkResp %d %d %s %s)", r.A, r.B, coqBool(r.OK), coqList(rows)))
	}
	fmt.Fprintf(&sb, "Definition c%d : scase := mkSCase\n %s\n %s.\n", idx, coqList(cs), coqList(rs))

	return sb.String()
}

func init() {
	verifRegister("c20serve", "C20: reloads while a unix socket client keeps querying GET sites", c20ServeMain)
	verifRegister("c20servechild", "C20: run one serve case (JSON on stdin) in this process, result as JSON", c20ServeChildMain)
}

type c20ServeResult struct {
	Steps []c20Config `json:"steps"`
	Resps []*c20Resp  `json:"resps"`
	Total int         `json:"total"`
}

func c20ServeChildMain(_ []string) int {
	in := &c20Input{}
	if err := json.NewDecoder(os.Stdin).Decode(in); err != nil {
		fmt.Fprintf(os.Stderr, "c20servechild: %s\n", err)

		return 1
	}
	res := &c20ServeResult{}
	res.Steps, res.Resps, res.Total = c20ServeCase(in)
	buf, _ := json.Marshal(res)
	fmt.Fprintf(os.Stdout, "RESULT %s\n", buf)

	return 0
}

// c20ServeInChild runs the case in a child process: a daemon that dies while
// it serves clients during a reload (Go runtime "fatal error", panic, exit)
// must not take the stream down but be reported for this case. It is
// recorded as one answer that is not ok.
func c20ServeInChild(in *c20Input) *c20ServeResult {
	buf, _ := json.Marshal(in)
	cmd := exec.Command(os.Args[0], "c20servechild")
	cmd.Stdin = bytes.NewReader(buf)
	var stdout, stderr bytes.Buffer
	cmd.Stdout, cmd.Stderr = &stdout, &stderr
	err := cmd.Run()
	for _, line := range strings.Split(stdout.String(), "\n") {
		if strings.HasPrefix(line, "RESULT ") && err == nil {
			res := &c20ServeResult{}
			if jerr := json.Unmarshal([]byte(line[7:]), res); jerr != nil {
				panic(jerr)
			}

			return res
		}
	}
	text := stderr.String()
	if strings.Contains(text, "c20serve:") || strings.Contains(text, "c20:") {
		// a deadline of the harness itself: not a verdict
		panic("c20serve child: " + text[:min(len(text), 2000)])
	}
	head := strings.SplitN(text, "\n", 2)[0]
	fmt.Fprintf(os.Stderr, "c20serve: daemon died while serving during a reload: %s\n", head)
	if cmd.ProcessState != nil {
		os.RemoveAll(filepath.Join(verifEnv("VERIF_SOCKDIR", "/verif/work/sock"), fmt.Sprintf("p%d", cmd.ProcessState.Pid())))
	}
	res := &c20ServeResult{Resps: []*c20Resp{{A: 0, B: 0, OK: false}}, Total: 1}
	for i := range in.Steps {
		if c20MayExit(&in.Steps[i]) {
			break
		}
		res.Steps = append(res.Steps, in.Steps[i])
	}

	return res
}

func c20ServeMain(args []string) int {
	flags := verifParseStreamFlags("c20serve", args)
	meta := newVMeta("serve", "generated like stream reload (without the terminal configurations) plus a listener L0 that is part of every configuration; "+
		"three client goroutines send GET sites over L0 as fast as they can during all reloads; every third case has 16..27 connections and edits the first ones; distinct (phase at start, phase at end, answer) triples are kept. "+
		"non-trivial: at least one answer overlaps a reload that changes the backend set; distinct by input")
	inputs := []*c20Input{}
	if flags.replay != "" {
		vReadReplay(flags.replay, &inputs)
	} else {
		rnd := newVRand(flags.seed ^ 0xC20)
		for range flags.n {
			// every third case is wide: 16..27 connections, edits at the front
			gen := &c20Gen{rnd: rnd.fork(), wide: len(inputs)%3 == 2}
			in, _ := gen.generate(3 + rnd.intn(5))
			inputs = append(inputs, in)
		}
	}
	var sb strings.Builder
	sb.WriteString("From LMD Require Import C20.Run2.\nOpen Scope N_scope.\n")
	names := []string{}
	for i, in := range inputs {
		res := c20ServeInChild(in)
		steps, resps, total := res.Steps, res.Resps, res.Total
		sb.WriteString(c20ServeCoq(i, steps, resps))
		names = append(names, fmt.Sprintf("c%d", i))
		overlapping := 0
		for _, r := range resps {
			if r.A != r.B || r.A%2 == 1 {
				overlapping++
			}
		}
		meta.count(fmt.Sprintf("steps=%d", len(steps)))
		if len(steps) > 0 && len(steps[0].Conns) >= 20 {
			meta.count("wide")
		}
		meta.Histogram["answers"] += total
		meta.Histogram["distinct-answers"] += len(resps)
		meta.Histogram["answers-overlapping-a-reload"] += overlapping
		buf, _ := json.Marshal(in)
		meta.add(string(buf), overlapping > 0, in)
	}
	sb.WriteString("Definition cases : list scase := " + coqList(names) + ".\n")
	sb.WriteString("Definition M := Eval vm_compute in mismatches cases.\nPrint M.\n")
	if err := os.WriteFile(flags.out, []byte(sb.String()), 0o644); err != nil {
		panic(err)
	}
	meta.write(flags.meta)

	return 0
}
