//go:build verif

package lmd

import (
	"encoding/json"
	"fmt"
	"os"
	"sort"
	"strings"

	"github.com/sasha-s/go-deadlock"
)

// go-deadlock is off in a daemon started without -debug-deadlock (checkFlags,
// main.go:534; the driver enters mainLoop directly). Its lock order bookkeeping
// objects to `GET hosts` taking the read locks of the backends' stores in
// PeerMapOrder before and after a reload that reorders connections (see
// notes/C20.md, F5) and would end the process. Set before the package's init
// functions take their first lock.
var _ = c20EarlyOpts()

func c20EarlyOpts() bool {
	if len(os.Args) < 2 || (os.Args[1] != "c20sources" && os.Args[1] != "c20order") {
		return false
	}
	deadlock.Opts.Disable = true

	return true
}

// C20, stream "sources": the reload driver of c20_reload.go with backends that
// answer. Every symbolic source / fallback name of a case is a scripted
// Livestatus backend (vbackend.go) of its own whose data says who it is and how
// old it is: host vhost1 carries plugin_output "<name>@<generation>", the
// harness raises the generation of every backend before each reload ("backends
// keep changing"; Updateinterval is an hour, so a peer shows the generation of
// its initial synchronisation). What a client sees after a reload
//
//	GET sites  (peer_key peer_name addr section status), in response order
//	GET hosts  (peer_key name plugin_output)
//
// therefore tells for every backend which address is the primary one, which
// scripted backend its objects come from and whether they are the ones it
// served before the reload (kept peer) or freshly synchronised ones
// (added / changed connection). The connection logs of the scripted backends
// say who was contacted during the reload.
//
// The generator (c20Gen with lists=true) makes the list attributes of a
// connection the main dimension: permuted / extended / shortened source and
// fallback lists, flags in another order.

type c20LiveRow struct {
	ID      string `json:"id"`
	Name    string `json:"name"`
	Section string `json:"section"`
	Addr    string `json:"addr"`   // symbolic name of the address in the sites table
	Status  int64  `json:"status"` // sites.status (0 = up)
	Src     string `json:"src"`    // backend named by the served objects
	Gen     int64  `json:"gen"`    // generation of the served objects
	Kept    bool   `json:"kept"`
	Fresh   bool   `json:"fresh"`
	Running bool   `json:"running"`
}

type c20LiveObs struct {
	Order      []string     `json:"order"`     // Daemon.PeerMapOrder
	Rows       []c20LiveRow `json:"rows"`      // rows of GET sites in response order
	HostKeys   []string     `json:"hostkeys"`  // distinct values of the peer_key column of GET hosts, sorted
	OldRunning []string     `json:"oldrunning"`
	Contacted  []string     `json:"contacted"` // scripted backends that received a request during this step
}

const (
	c20LiveSites = "GET sites\nColumns: peer_key peer_name addr section status\nOutputFormat: json\n\n"
	c20LiveHosts = "GET hosts\nColumns: peer_key name plugin_output\nOutputFormat: json\n\n"
)

func init() {
	verifRegister("c20sources", "C20: reloads of multi-source connections whose sources are scripted backends with data",
		func(args []string) int { return c20SourcesMain("sources", args) })
	verifRegister("c20order", "C20: same driver, judged only for the order of the rows of the sites table",
		func(args []string) int { return c20SourcesMain("order", args) })
}

func c20SourceNames(in *c20Input) []string {
	seen := map[string]bool{}
	names := []string{}
	for i := range in.Steps {
		for j := range in.Steps[i].Conns {
			conn := &in.Steps[i].Conns[j]
			for _, list := range [][]string{conn.Source, conn.Fallback} {
				for _, name := range list {
					if !seen[name] {
						seen[name] = true
						names = append(names, name)
					}
				}
			}
		}
	}
	sort.Strings(names)

	return names
}

// c20SourcesCase runs one case in this process.
func c20SourcesCase(in *c20Input) []*c20LiveObs {
	run := c20NewRun(in)
	run.live = true
	defer run.shutdown()
	names := c20SourceNames(in)
	backends := map[string]*vBackend{}
	defer func() {
		for _, b := range backends {
			b.Close()
		}
	}()
	for i, name := range names {
		backend := newVBackend(fmt.Sprintf("c20s%d", i))
		backend.SetDataset(vDefaultDataset(newVRand(uint64(i)+1), 2, 2))
		backends[name] = backend
		// the configuration names <dir>/<name>.sock like in the other streams
		if err := os.Symlink(backend.Addr(), c20Path(run.dir, name)); err != nil {
			panic(err)
		}
	}
	res := []*c20LiveObs{}
	for i := range in.Steps {
		counts := map[string]int{}
		for name, backend := range backends {
			backend.SetCell("hosts", []string{"vhost1"}, "plugin_output", fmt.Sprintf("%s@%d", name, i+1))
			counts[name] = backend.QueryCount()
		}
		run.apply(&in.Steps[i])
		obs := run.observeLive()
		for _, name := range names {
			if backends[name].QueryCount() > counts[name] {
				obs.Contacted = append(obs.Contacted, name)
			}
		}
		res = append(res, obs)
	}

	return res
}

func (r *c20Run) observeLive() *c20LiveObs {
	peers, order, listeners := r.settle()
	obs := &c20LiveObs{Order: order}
	lnames := []string{}
	for addr := range listeners {
		lnames = append(lnames, addr)
	}
	sort.Strings(lnames)
	if len(lnames) == 0 {
		panic("c20sources: no listener")
	}
	sites, err := c20Query(lnames[0], c20LiveSites)
	if err != nil {
		panic("c20sources: GET sites: " + err.Error())
	}
	hosts, err := c20Query(lnames[0], c20LiveHosts)
	if err != nil {
		panic("c20sources: GET hosts: " + err.Error())
	}
	marker := map[string]string{}
	for _, row := range hosts {
		if len(row) != 3 {
			panic(fmt.Sprintf("c20sources: hosts row of unexpected width: %v", row))
		}
		key := fmt.Sprintf("%v", row[0])
		if !c20Has(obs.HostKeys, key) {
			obs.HostKeys = append(obs.HostKeys, key)
		}
		if fmt.Sprintf("%v", row[1]) == "vhost1" {
			marker[key] = fmt.Sprintf("%v", row[2])
		}
	}
	sort.Strings(obs.HostKeys)
	for _, row := range sites {
		if len(row) != 5 {
			panic(fmt.Sprintf("c20sources: sites row of unexpected width: %v", row))
		}
		lr := c20LiveRow{
			ID:      fmt.Sprintf("%v", row[0]),
			Name:    fmt.Sprintf("%v", row[1]),
			Addr:    c20Symbolic(r.dir, fmt.Sprintf("%v", row[2])),
			Section: fmt.Sprintf("%v", row[3]),
			Status:  -1,
			Gen:     0,
		}
		if num, ok := row[4].(json.Number); ok {
			lr.Status, _ = num.Int64()
		}
		if at := strings.LastIndex(marker[lr.ID], "@"); at >= 0 {
			lr.Src = marker[lr.ID][:at]
			fmt.Sscanf(marker[lr.ID][at+1:], "%d", &lr.Gen)
		}
		if p := peers[lr.ID]; p != nil {
			lr.Kept = r.prevPeers[lr.ID] == p
			lr.Fresh = !r.seenPeers[p]
			lr.Running = !p.paused.Load()
		}
		obs.Rows = append(obs.Rows, lr)
	}
	for id, old := range r.prevPeers {
		if peers[id] != old && !old.paused.Load() {
			obs.OldRunning = append(obs.OldRunning, id)
		}
	}
	sort.Strings(obs.OldRunning)
	for _, p := range peers {
		if !r.seenPeers[p] {
			r.seenPeers[p] = true
			r.allPeers = append(r.allPeers, p)
		}
	}
	r.prevPeers = peers
	r.prevListeners = listeners

	return obs
}

func c20LiveCoq(idx int, in *c20Input, obs []*c20LiveObs) string {
	steps := make([]string, 0, len(in.Steps))
	for i := range in.Steps {
		steps = append(steps, c20CoqConfig(&in.Steps[i]))
	}
	os := make([]string, 0, len(obs))
	for _, o := range obs {
		rows := make([]string, 0, len(o.Rows))
		for i := range o.Rows {
			row := &o.Rows[i]
			status := row.Status
			if status < 0 {
				status = 99
			}
			rows = append(rows, fmt.Sprintf("(mkLRow %s %s %s %s %s %s %s %s %s %s)", coqStr(row.ID), coqStr(row.Name), coqStr(row.Section),
				coqStr(row.Addr), coqN(status), coqStr(row.Src), coqN(row.Gen), coqBool(row.Kept), coqBool(row.Fresh), coqBool(row.Running)))
		}
		os = append(os, fmt.Sprintf("(mkLObs %s %s %s %s %s)", coqStrList(o.Order), coqList(rows), coqStrList(o.HostKeys),
			coqStrList(o.OldRunning), coqStrList(o.Contacted)))
	}

	return fmt.Sprintf("Definition c%d : lcase := mkLCase\n %s\n %s.\n", idx, coqList(steps), coqList(os))
}

func c20SourcesMain(stream string, args []string) int {
	flags := verifParseStreamFlags("c20"+stream, args)
	meta := newVMeta(stream, "generated: a start configuration (1-2 unix listeners, 1-4 connections, most of them with 2-3 sources and some with 1-2 fallback "+
		"addresses, every address a scripted backend of its own whose objects name it and its generation) followed by 2..6 edited configurations, three fifths of "+
		"the edits on a list attribute (source / fallback / flags: other order of the same entries, entry added in front / in the middle / at the end, first / last "+
		"entry dropped, first entry replaced), the others as in stream reload (without terminal ones); each applied through the real mainLoop + SIGHUP path; observed: "+
		"GET sites (addr, status, row order), GET hosts (which backend's objects, which generation), request logs of the scripted backends. "+
		"non-trivial: at least one reload that changes a list attribute; distinct by input")
	inputs := []*c20Input{}
	opsOf := [][]string{}
	if flags.replay != "" {
		vReadReplay(flags.replay, &inputs)
	} else {
		rnd := newVRand(flags.seed ^ 0x50C20)
		if stream == "order" {
			rnd = newVRand(flags.seed ^ 0x0DE20)
		}
		for len(inputs) < flags.n {
			// stream order: edits as in stream reload (reordered connections matter there)
			gen := &c20Gen{rnd: rnd.fork(), lists: stream == "sources", plain: true}
			in, ops := gen.generate(2 + rnd.intn(5))
			// configurations that end the process belong to stream reload
			cut := len(in.Steps)
			for i := range in.Steps {
				if c20MayExit(&in.Steps[i]) {
					cut = i

					break
				}
			}
			if cut < 2 {
				continue
			}
			in.Steps = in.Steps[:cut]
			inputs = append(inputs, in)
			opsOf = append(opsOf, ops[:cut-1])
		}
	}
	var sb strings.Builder
	sb.WriteString("From LMD Require Import C20.Run3.\nOpen Scope N_scope.\n")
	names := []string{}
	for i, in := range inputs {
		usable := len(in.Steps) > 0
		for j := range in.Steps {
			if c20MayExit(&in.Steps[j]) {
				usable = false
			}
		}
		if !usable {
			in = &c20Input{Steps: []c20Config{}}
		}
		var obs []*c20LiveObs
		if usable {
			obs = c20SourcesCase(in)
		}
		if os.Getenv("VERIF_C20_DEBUG") != "" {
			for j, o := range obs {
				buf, _ := json.Marshal(o)
				fmt.Fprintf(os.Stderr, "c20sources: case %d step %d: %s\n", i, j, buf)
			}
		}
		sb.WriteString(c20LiveCoq(i, in, obs))
		names = append(names, fmt.Sprintf("c%d", i))
		meta.count(fmt.Sprintf("steps=%d", len(in.Steps)))
		listEdit := false
		if i < len(opsOf) {
			for _, op := range opsOf[i] {
				meta.count("edit=" + op)
				for _, attr := range []string{"modify-source-", "modify-fallback-", "modify-flags-"} {
					if strings.HasPrefix(op, attr) {
						listEdit = true
					}
				}
			}
		} else {
			listEdit = len(in.Steps) > 1
		}
		multi := 0
		for j := range in.Steps {
			for k := range in.Steps[j].Conns {
				if len(in.Steps[j].Conns[k].Source) > 1 {
					multi++
				}
			}
		}
		if multi > 0 {
			meta.count("has-multi-source-connection")
		}
		for _, o := range obs {
			ordered := len(o.Rows) == len(o.Order)
			for k := range o.Rows {
				if ordered && o.Rows[k].ID != o.Order[k] {
					ordered = false
				}
			}
			if ordered {
				meta.count("sites-rows-in-configuration-order")
			} else {
				meta.count("sites-rows-in-other-order")
			}
		}
		buf, _ := json.Marshal(in)
		meta.add(string(buf), listEdit, in)
	}
	sb.WriteString("Definition cases : list lcase := " + coqList(names) + ".\n")
	if stream == "order" {
		sb.WriteString("Definition M := Eval vm_compute in order_mismatches cases.\nPrint M.\n")
	} else {
		sb.WriteString("Definition M := Eval vm_compute in mismatches cases.\nPrint M.\n")
	}
	if err := os.WriteFile(flags.out, []byte(sb.String()), 0o644); err != nil {
		panic(err)
	}
	meta.write(flags.meta)

	return 0
}
