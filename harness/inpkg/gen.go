//go:build verif

package lmd

import (
	"fmt"
	"sort"
	"strings"
)

func init() {
	verifRegister("gen", "print the generated Coq files (Gen/*.v) derived from the code's own tables", genMain)
}

func genTableNames() []TableName {
	names := make([]TableName, 0, len(Objects.Tables))
	for n := range Objects.Tables {
		names = append(names, n)
	}
	sort.Slice(names, func(i, j int) bool { return names[i] < names[j] })

	return names
}

func genDataType(d DataType) string {
	switch d {
	case StringCol:
		return "TStr"
	case StringListCol:
		return "TStrList"
	case IntCol:
		return "TInt"
	case Int64Col:
		return "TInt64"
	case Int64ListCol:
		return "TInt64List"
	case FloatCol:
		return "TFloat"
	case JSONCol:
		return "TJSON"
	case CustomVarCol:
		return "TCustVar"
	case ServiceMemberListCol:
		return "TSvcMemberList"
	case InterfaceListCol:
		return "TIfaceList"
	case StringLargeCol:
		return "TStrLarge"
	}

	return fmt.Sprintf("TUnknown%d", d)
}

func genStorage(s StorageType) string {
	switch s {
	case LocalStore:
		return "SLocal"
	case RefStore:
		return "SRef"
	case VirtualStore:
		return "SVirtual"
	}

	return fmt.Sprintf("SUnknown%d", s)
}

func genFetch(f FetchType) string {
	switch f {
	case Static:
		return "FStatic"
	case Dynamic:
		return "FDynamic"
	case None:
		return "FNone"
	}

	return fmt.Sprintf("FUnknown%d", f)
}

func genSchema() string {
	var sb strings.Builder
	sb.WriteString("(* GENERATED on every run by `lmdverif gen` from Objects.Tables of /repo/pkg/lmd. Do not edit. *)\n")
	sb.WriteString("From LMD Require Import Base.Str QE.SchemaTypes.\nOpen Scope N_scope.\nOpen Scope string_scope.\n\n")
	names := genTableNames()
	tnames := []string{}
	for _, tn := range names {
		table := Objects.Tables[tn]
		if tn == TableSites || tn == TableTables {
			// aliases of backends / columns
			if table.name != tn {
				continue
			}
		}
		ident := "t_" + tn.String()
		tnames = append(tnames, ident)
		cols := []string{}
		for _, col := range table.columns {
			ref := "None"
			if col.RefCol != nil {
				ref = fmt.Sprintf("(Some (%s, %s))", coqStr(col.RefColTableName.String()), coqStr(col.RefCol.Name))
			}
			cols = append(cols, fmt.Sprintf("  mkCol %s %s %s %s %d%%N %s", coqStr(col.Name), genDataType(col.DataType), genStorage(col.StorageType), genFetch(col.FetchType), uint32(col.Optional), ref))
		}
		refs := []string{}
		for i := range table.refTables {
			rt := &table.refTables[i]
			rc := []string{}
			for _, c := range rt.Columns {
				rc = append(rc, c.Name)
			}
			refs = append(refs, fmt.Sprintf("(%s, %s)", coqStr(rt.Table.name.String()), coqStrList(rc)))
		}
		aliases := []string{tn.String()}
		for _, other := range names {
			if other != tn && Objects.Tables[other] == table {
				aliases = append(aliases, other.String())
			}
		}
		fmt.Fprintf(&sb, "Definition %s : tschema := mkTable %s %s %s %s %s %s %s [\n%s\n].\n\n",
			ident, coqStr(tn.String()), coqStrList(aliases), coqStrList(table.primaryKey), coqStrList(table.defaultSort),
			coqBool(table.passthroughOnly), coqBool(table.virtual != nil), coqList(refs), strings.Join(cols, ";\n"))
	}
	sb.WriteString("Definition schema : list tschema := " + coqList(tnames) + ".\n")

	return sb.String()
}

// verifGenExtra lets property files register further generated Gen/*.v files (file name -> generator) from init().
var verifGenExtra = map[string]func() string{}

// gen [--only a.v,b.v]: Schema.v and all registered files, or Schema.v and the named ones only
func genMain(args []string) int {
	fmt.Println("=== FILE Schema.v")
	fmt.Print(genSchema())
	extra := make([]string, 0, len(verifGenExtra))
	for n := range verifGenExtra {
		extra = append(extra, n)
	}
	if len(args) >= 2 && args[0] == "--only" {
		extra = extra[:0]
		for _, n := range strings.Split(args[1], ",") {
			if _, ok := verifGenExtra[n]; ok {
				extra = append(extra, n)
			}
		}
	}
	sort.Strings(extra)
	for _, n := range extra {
		fmt.Println("=== FILE " + n)
		fmt.Print(verifGenExtra[n]())
	}

	return 0
}
