//go:build verif

package lmd

import (
	"flag"
	"fmt"
	"os"
	"sort"
)

// verifCmd is one harness sub command.
type verifCmd struct {
	name string
	help string
	run  func(args []string) int
}

var verifCmds = map[string]*verifCmd{}

func verifRegister(name, help string, run func(args []string) int) {
	verifCmds[name] = &verifCmd{name: name, help: help, run: run}
}

// VerifMain dispatches harness sub commands.
func VerifMain(args []string) int {
	if len(args) == 0 || verifCmds[args[0]] == nil {
		names := make([]string, 0, len(verifCmds))
		for n := range verifCmds {
			names = append(names, n)
		}
		sort.Strings(names)
		fmt.Fprintf(os.Stderr, "usage: lmdverif <cmd> [flags]\n")
		for _, n := range names {
			fmt.Fprintf(os.Stderr, "  %-14s %s\n", n, verifCmds[n].help)
		}

		return 2
	}
	InitLogging(&Config{LogLevel: verifEnv("VERIF_LOGLEVEL", "off"), LogFile: "stderr"})

	return verifCmds[args[0]].run(args[1:])
}

func verifEnv(key, def string) string {
	if v := os.Getenv(key); v != "" {
		return v
	}

	return def
}

// common flags of stream commands.
type verifStreamFlags struct {
	seed   uint64
	n      int
	out    string
	meta   string
	tier   string
	replay string
}

func verifParseStreamFlags(name string, args []string) *verifStreamFlags {
	fs := flag.NewFlagSet(name, flag.ExitOnError)
	sf := &verifStreamFlags{}
	fs.Uint64Var(&sf.seed, "seed", 1, "PRNG seed")
	fs.IntVar(&sf.n, "n", 100, "number of generated cases")
	fs.StringVar(&sf.out, "out", "cases.v", "output file: Coq cases")
	fs.StringVar(&sf.meta, "meta", "meta.json", "output file: statistics about the generated cases")
	fs.StringVar(&sf.tier, "tier", "quick", "quick|thorough")
	fs.StringVar(&sf.replay, "replay", "", "replay file (inputs) instead of generating")
	_ = fs.Parse(args)

	return sf
}

// verifNewDaemon builds a daemon without listeners or peers.
func verifNewDaemon() *Daemon {
	lmd := NewLMDInstance()
	lmd.Config = NewConfig([]string{})
	lmd.Config.ValidateConfig()
	lmd.nodeAccessor = NewNodes(lmd, []string{}, "")

	return lmd
}
