//go:build verif

package lmd

import (
	"bufio"
	"context"
	"fmt"
	"net/http/httptest"
	"strings"
)

// C18 (query half): two lmd daemons in one process, each answering for a part of the
// backends, connected through their real HTTP /query endpoint; a request sent to node 0
// must be answered like a single lmd holding all backends (the model's answer).

type qeCluster struct {
	lmds    []*Daemon
	servers []*httptest.Server
}

func (c *qeCluster) close() {
	for _, s := range c.servers {
		s.Close()
	}
}

// qeNewCluster loads the dataset into n daemons and assigns the backends round robin blocks.
func qeNewCluster(ds *qeDataset, assign [][]string) (*qeCluster, error) {
	cl := &qeCluster{}
	urls := []string{}
	for range assign {
		lmd, err := qeLoad(ds, qeWorkDir())
		if err != nil {
			cl.close()

			return nil, err
		}
		srv := httptest.NewServer(initializeHTTPRouter(lmd))
		cl.lmds = append(cl.lmds, lmd)
		cl.servers = append(cl.servers, srv)
		urls = append(urls, srv.URL)
	}
	for me, lmd := range cl.lmds {
		nodes := NewNodes(lmd, urls, urls[me])
		nodes.ID = fmt.Sprintf("verif-node-%d", me)
		nodes.nodeBackends = map[string][]string{}
		for i, na := range nodes.nodeAddresses {
			na.id = fmt.Sprintf("n%d", i)
			na.isMe = i == me
			nodes.nodeBackends[na.id] = assign[i]
		}
		nodes.thisNode = nodes.nodeAddresses[me]
		nodes.onlineNodes = append(NodeAddressList{}, nodes.nodeAddresses...)
		nodes.assignedBackends = assign[me]
		nodes.backends = nil
		for _, bk := range ds.Backends {
			nodes.backends = append(nodes.backends, bk.Key)
		}
		lmd.nodeAccessor = nodes
	}

	return cl, nil
}

// qeRunClusterQuery sends the request to node 0 through the cluster code path.
func qeRunClusterQuery(lmd *Daemon, text string, optimize bool) (obs *qeObs) {
	obs = &qeObs{}
	defer func() {
		if r := recover(); r != nil {
			obs.kind = "error"
			obs.code = 999
			obs.rawBody = fmt.Sprintf("panic: %v", r)
		}
	}()
	mode := ParseDefault
	if optimize {
		mode = ParseOptimize
	}
	ctx := context.Background()
	req, _, err := NewRequest(ctx, lmd, bufio.NewReader(strings.NewReader(text)), mode)
	if err != nil || req == nil {
		obs.kind = "error"
		obs.code = 400

		return obs
	}
	if err = req.ExpandRequestedBackends(); err != nil {
		obs.kind = "error"
		obs.code = 400

		return obs
	}
	res, err := req.BuildResponse(ctx)
	if err != nil {
		obs.kind = "error"
		obs.code = 500
		if res != nil && res.code != 200 {
			obs.code = res.code
		}
		obs.rawBody = err.Error()

		return obs
	}
	buf, err := res.Buffer()
	if err != nil {
		obs.kind = "error"
		obs.code = 500

		return obs
	}
	obs.rawBody = buf.String()
	qeParseBody(req, res, buf.Bytes(), obs)

	return obs
}
