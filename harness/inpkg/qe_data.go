//go:build verif

package lmd

import (
	"encoding/json"
	"fmt"
	"os"
	"path/filepath"
	"sort"
	"strings"
	"sync/atomic"
)

// qeMilli is a float column value with three decimals (1250 = 1.25).
type qeMilli int64

// qeTable is one table of one generated backend.
type qeTable struct {
	Name string          `json:"name"`
	Cols []string        `json:"cols"`
	Rows [][]interface{} `json:"rows"`
}

type qeBackend struct {
	Key    string     `json:"key"`
	Name   string     `json:"name"`
	Flags  []string   `json:"flags"`
	Avail  bool       `json:"avail"` // false: peer is put into down state after loading
	// Warn: an available peer is put into the warning state (one failed update, the data is still served)
	Warn bool `json:"warn,omitempty"`
	Error  string     `json:"error"`
	Tables []*qeTable `json:"tables"`
}

type qeDataset struct {
	Backends []*qeBackend `json:"backends"`
}

func (b *qeBackend) table(name string) *qeTable {
	for _, t := range b.Tables {
		if t.Name == name {
			return t
		}
	}

	return nil
}

func (t *qeTable) col(name string) int {
	for i, c := range t.Cols {
		if c == name {
			return i
		}
	}

	return -1
}

// ---- generator pools ---------------------------------------------------------

var (
	// ("dbxprod", "x-1": names that differ from a dotted name exactly at the dot - an escaped dot must not match them)
	qeHostNames = []string{"alpha", "Alpha", "ALPHA", "beta", "db.prod", "a.b.c", "x.1", "x", "web", "web-2", "web01", "Web01", "Zürich", "ÄPFEL", "äpfel", "日本", "gw", "h-1", "h_2", "node.lan.example", "mail", "dbxprod", "x-1"}
	qeSvcNames  = []string{"ping", "Ping", "http", "HTTP", "disk /", "load", "cpu.usage", "cpu_usage", "Über", "ssh"}
	qeGroups    = []string{"linux", "Linux", "prod", "web", "db.cluster", "db-cluster", "Everything", "empty", "über"}
	qeSGroups   = []string{"critical", "Web", "web", "infra.core", "infra_core", "none"}
	qeContacts  = []string{"alice", "bob", "Carol", "dave", "omd"}
	qeCVNames   = []string{"FOO", "BAR", "LOC", "TAG"}
	qeCVValues  = []string{"1", "1", "x", "Berlin", "berlin", "a b", "", "42"}
	qeTexts     = []string{"OK", "ok - all fine", "CRITICAL: disk full", "WARN 80%", "", "a.b", "a-b", "Ünïcode", "x|y=1", "line (1) [x]"}
	qeFlagSets  = [][]string{{}, {"Naemon"}, {"Naemon", "HasLastUpdateColumn"}, {"Icinga2"}, {"Shinken"}}
)

func qeSubset(r *vRand, pool []string, maxN int) []string {
	n := r.intn(maxN + 1)
	res := []string{}
	seen := map[string]bool{}
	for i := 0; i < n; i++ {
		v := vPick(r, pool)
		if !seen[v] {
			seen[v] = true
			res = append(res, v)
		}
	}

	return res
}

func qeInt8Edge(r *vRand) int64 { return vPick(r, []int64{0, 0, 1, 1, 2, 3, -1, 127, 100}) }

func qeBigInt(r *vRand) int64 {
	return vPick(r, []int64{0, 1, 2, 7, 255, 256, 300, 65536, 1 << 31, (1 << 31) + 5, 1 << 40, 1700000000, 1700000060})
}

func qeFloatVal(r *vRand) qeMilli {
	return vPick(r, []qeMilli{0, 1, 250, 500, 1000, 1500, 2125, 10000, 123456, 999})
}

func qeIDList(r *vRand) []int64 {
	n := r.intn(3)
	res := []int64{}
	for i := 0; i < n; i++ {
		res = append(res, vPick(r, []int64{1, 2, 44, 127, 128, 300, 1 << 40}))
	}

	return res
}

// qeGenBackend generates a consistent backend: services reference existing hosts, group
// member lists equal the objects naming the group, primary keys unique and sorted.
func qeGenBackend(r *vRand, idx int, maxHosts int) *qeBackend {
	bk := &qeBackend{
		Key:   fmt.Sprintf("id%d", idx),
		Name:  vPick(r, []string{"Site A", "site-b", "Ünï", "x"}) + fmt.Sprintf("%d", idx),
		Flags: vPick(r, qeFlagSets),
		Avail: true,
	}
	nHosts := r.intn(maxHosts + 1)
	hostNames := qeSubset(r, qeHostNames, nHosts+2)
	if len(hostNames) > maxHosts {
		hostNames = hostNames[:maxHosts]
	}
	if len(hostNames) >= 2 && r.chance(1, 2) {
		// a name which is a prefix of another one, followed by a character below ';' (joined keys order differently)
		pair := vPick(r, [][]string{{"web", "web-2"}, {"x", "x.1"}, {"web", "web01"}, {"h", "h-1"}, {"db.prod", "dbxprod"}, {"x.1", "x-1"}})
		rest := []string{}
		for _, n := range hostNames {
			if n != pair[0] && n != pair[1] {
				rest = append(rest, n)
			}
		}
		if len(rest) > len(hostNames)-2 {
			rest = rest[:len(hostNames)-2]
		}
		hostNames = append(rest, pair...)
	}
	sort.Strings(hostNames)

	hosts := &qeTable{Name: "hosts", Cols: []string{"name", "alias", "address", "display_name", "state", "acknowledged", "has_been_checked",
		"scheduled_downtime_depth", "groups", "contacts", "custom_variable_names", "custom_variable_values", "latency", "execution_time",
		"comments", "downtimes", "num_services", "last_check", "plugin_output", "long_plugin_output", "services", "check_command", "notes",
		"current_attempt", "check_freshness"}}
	services := &qeTable{Name: "services", Cols: []string{"host_name", "description", "display_name", "state", "acknowledged", "has_been_checked",
		"scheduled_downtime_depth", "groups", "contacts", "custom_variable_names", "custom_variable_values", "latency", "execution_time",
		"comments", "downtimes", "last_check", "plugin_output", "long_plugin_output", "check_command", "current_attempt"}}
	hasNaemon := false
	hasShinken := false
	for _, f := range bk.Flags {
		if f == "Naemon" {
			hasNaemon = true
		}
		if f == "Shinken" {
			hasShinken = true
		}
	}
	if hasNaemon {
		hosts.Cols = append(hosts.Cols, "obsess", "check_source")
		services.Cols = append(services.Cols, "obsess", "check_source")
	}
	if hasShinken {
		hosts.Cols = append(hosts.Cols, "is_impact", "realm")
	}

	hostGroupsOf := map[string][]string{}
	svcGroupMembers := map[string][][2]string{}
	for _, hn := range hostNames {
		groups := qeSubset(r, qeGroups[:6], 3)
		hostGroupsOf[hn] = groups
		nSvc := r.intn(4)
		svcs := qeSubset(r, qeSvcNames, nSvc+1)
		if len(svcs) > nSvc {
			svcs = svcs[:nSvc]
		}
		sort.Strings(svcs)
		cvn := qeSubset(r, qeCVNames, 3)
		cvv := []string{}
		for range cvn {
			cvv = append(cvv, vPick(r, qeCVValues))
		}
		row := []interface{}{hn, vPick(r, []string{hn + "_ALIAS", "alias", strings.ToUpper(hn)}), vPick(r, []string{"127.0.0.1", "10.0.0.5", "host.example.org"}),
			vPick(r, []string{hn, "Display " + hn}), qeInt8Edge(r), int64(r.intn(2)), int64(r.intn(2)), int64(r.intn(3)),
			groups, qeSubset(r, qeContacts, 3), cvn, cvv, qeFloatVal(r), qeFloatVal(r), qeIDList(r), qeIDList(r), int64(len(svcs)), qeBigInt(r),
			vPick(r, qeTexts), vPick(r, []string{"", "", "long\\ntext", "more details"}), svcs, vPick(r, []string{"check_ping", "check_http!-H x", ""}),
			vPick(r, []string{"", "note"}), int64(r.intn(4)), int64(r.intn(2))}
		if hasNaemon {
			row = append(row, int64(r.intn(2)), vPick(r, []string{"Core Worker 1", ""}))
		}
		if hasShinken {
			row = append(row, int64(r.intn(2)), vPick(r, []string{"All", ""}))
		}
		hosts.Rows = append(hosts.Rows, row)
		for _, sn := range svcs {
			sgroups := qeSubset(r, qeSGroups[:4], 2)
			for _, g := range sgroups {
				svcGroupMembers[g] = append(svcGroupMembers[g], [2]string{hn, sn})
			}
			scvn := qeSubset(r, qeCVNames, 2)
			scvv := []string{}
			for range scvn {
				scvv = append(scvv, vPick(r, qeCVValues))
			}
			srow := []interface{}{hn, sn, vPick(r, []string{sn, "Disp " + sn}), qeInt8Edge(r), int64(r.intn(2)), int64(r.intn(2)), int64(r.intn(3)),
				sgroups, qeSubset(r, qeContacts, 3), scvn, scvv, qeFloatVal(r), qeFloatVal(r), qeIDList(r), qeIDList(r), qeBigInt(r),
				vPick(r, qeTexts), vPick(r, []string{"", "details"}), vPick(r, []string{"check_x", "check_http"}), int64(r.intn(4))}
			if hasNaemon {
				srow = append(srow, int64(r.intn(2)), vPick(r, []string{"Core Worker 2", ""}))
			}
			services.Rows = append(services.Rows, srow)
		}
	}

	hostgroups := &qeTable{Name: "hostgroups", Cols: []string{"name", "alias", "members", "num_hosts"}}
	gnames := append([]string{}, qeGroups...)
	sort.Strings(gnames)
	for _, g := range gnames {
		members := []string{}
		for _, hn := range hostNames {
			for _, hg := range hostGroupsOf[hn] {
				if hg == g {
					members = append(members, hn)
				}
			}
		}
		if len(members) == 0 && g != "empty" && r.chance(1, 2) {
			continue
		}
		hostgroups.Rows = append(hostgroups.Rows, []interface{}{g, "Alias " + g, members, int64(len(members))})
	}
	servicegroups := &qeTable{Name: "servicegroups", Cols: []string{"name", "alias", "members"}}
	sgnames := append([]string{}, qeSGroups...)
	sort.Strings(sgnames)
	for _, g := range sgnames {
		members := svcGroupMembers[g]
		if len(members) == 0 && g != "none" && r.chance(1, 2) {
			continue
		}
		if members == nil {
			members = [][2]string{}
		}
		servicegroups.Rows = append(servicegroups.Rows, []interface{}{g, "SG " + g, members})
	}
	contacts := &qeTable{Name: "contacts", Cols: []string{"name", "alias", "email", "can_submit_commands"}}
	cnames := append([]string{}, qeContacts...)
	sort.Strings(cnames)
	for _, c := range cnames {
		contacts.Rows = append(contacts.Rows, []interface{}{c, strings.ToUpper(c), c + "@example.org", int64(r.intn(2))})
	}
	contactgroups := &qeTable{Name: "contactgroups", Cols: []string{"name", "alias", "members"}, Rows: [][]interface{}{{"admins", "Admins", qeSubset(r, qeContacts, 3)}}}
	commands := &qeTable{Name: "commands", Cols: []string{"name", "line"}, Rows: [][]interface{}{{"check_http", "$USER1$/check_http"}, {"check_ping", "$USER1$/check_ping -H $HOSTADDRESS$"}}}
	timeperiods := &qeTable{Name: "timeperiods", Cols: []string{"name", "alias", "in"}, Rows: [][]interface{}{{"24x7", "always", int64(1)}, {"never", "Never", int64(0)}}}

	comments := &qeTable{Name: "comments", Cols: []string{"id", "author", "comment", "host_name", "service_description", "entry_time", "entry_type", "type", "persistent", "expires", "expire_time", "is_service"}}
	downtimes := &qeTable{Name: "downtimes", Cols: []string{"id", "author", "comment", "host_name", "service_description", "start_time", "end_time", "fixed", "duration", "triggered_by", "type", "is_service"}}
	if len(hostNames) > 0 {
		ids := []int64{1, 2, 44, 127, 128, 300, 1 << 40}
		for _, id := range ids {
			if !r.chance(1, 2) {
				continue
			}
			hn := vPick(r, hostNames)
			sd := ""
			isSvc := int64(0)
			st := bk.table2(services, hn)
			if len(st) > 0 && r.chance(1, 2) {
				sd = vPick(r, st)
				isSvc = 1
			}
			comments.Rows = append(comments.Rows, []interface{}{id, vPick(r, qeContacts), vPick(r, qeTexts), hn, sd, qeBigInt(r), int64(1 + r.intn(4)), int64(1 + isSvc), int64(r.intn(2)), int64(r.intn(2)), qeBigInt(r), isSvc})
		}
		for _, id := range ids {
			if !r.chance(1, 3) {
				continue
			}
			hn := vPick(r, hostNames)
			sd := ""
			isSvc := int64(0)
			st := bk.table2(services, hn)
			if len(st) > 0 && r.chance(1, 2) {
				sd = vPick(r, st)
				isSvc = 1
			}
			downtimes.Rows = append(downtimes.Rows, []interface{}{id, vPick(r, qeContacts), vPick(r, qeTexts), hn, sd, qeBigInt(r), qeBigInt(r), int64(r.intn(2)), int64(r.intn(7200)), int64(0), int64(1 + isSvc), isSvc})
		}
	}
	status := &qeTable{Name: "status", Cols: []string{"program_start", "nagios_pid", "livestatus_version", "program_version", "enable_notifications"},
		Rows: [][]interface{}{{int64(1700000000 + idx), int64(4000 + idx), "1.4.2-naemon", "1.4.2", int64(1)}}}

	bk.Tables = []*qeTable{status, commands, comments, contactgroups, contacts, downtimes, hostgroups, hosts, servicegroups, services, timeperiods}

	return bk
}

// table2 returns the service descriptions of a host.
func (b *qeBackend) table2(services *qeTable, host string) []string {
	res := []string{}
	for _, row := range services.Rows {
		if row[0].(string) == host {
			res = append(res, row[1].(string))
		}
	}

	return res
}

func qeGenDataset(r *vRand, maxBackends, maxHosts int) *qeDataset {
	ds := &qeDataset{}
	n := 1 + r.intn(maxBackends)
	for i := 0; i < n; i++ {
		ds.Backends = append(ds.Backends, qeGenBackend(r.fork(), i+1, maxHosts))
	}

	return ds
}

// sortCustomVars orders the custom variables of every host and service by name. Used by the cluster profile:
// a single lmd writes the members of a custom_variables object in custom_variable_names order, a cluster node
// passes every partner row through a Go map and writes them sorted by name - the same JSON object; with sorted
// names both orders coincide and the comparison can stay member by member.
func (ds *qeDataset) sortCustomVars() {
	for _, bk := range ds.Backends {
		for _, t := range bk.Tables {
			ni, vi := -1, -1
			for i, c := range t.Cols {
				switch c {
				case "custom_variable_names":
					ni = i
				case "custom_variable_values":
					vi = i
				}
			}
			if ni < 0 || vi < 0 {
				continue
			}
			for _, row := range t.Rows {
				names, ok1 := row[ni].([]string)
				vals, ok2 := row[vi].([]string)
				if !ok1 || !ok2 || len(names) != len(vals) {
					continue
				}
				idx := make([]int, len(names))
				for i := range idx {
					idx[i] = i
				}
				sort.SliceStable(idx, func(a, b int) bool { return names[idx[a]] < names[idx[b]] })
				nn, vv := make([]string, len(names)), make([]string, len(names))
				for i, k := range idx {
					nn[i], vv[i] = names[k], vals[k]
				}
				row[ni], row[vi] = nn, vv
			}
		}
	}
}

// ---- JSON (replay) decoding: restore typed values from generic JSON ----------

func (ds *qeDataset) fixTypes() {
	for _, bk := range ds.Backends {
		for _, t := range bk.Tables {
			tn, err := NewTableName(t.Name)
			if err != nil {
				continue
			}
			table := Objects.Tables[tn]
			for _, row := range t.Rows {
				for i, name := range t.Cols {
					col := table.GetColumn(name)
					if col == nil || i >= len(row) {
						continue
					}
					row[i] = qeRetype(col.DataType, row[i])
				}
			}
		}
	}
}

func qeRetype(dt DataType, v interface{}) interface{} {
	switch dt {
	case IntCol, Int64Col:
		if f, ok := v.(float64); ok {
			return int64(f)
		}
	case FloatCol:
		if f, ok := v.(float64); ok {
			return qeMilli(int64(f))
		}
	case StringListCol:
		if l, ok := v.([]interface{}); ok {
			res := []string{}
			for _, e := range l {
				res = append(res, fmt.Sprintf("%v", e))
			}

			return res
		}
		if v == nil {
			return []string{}
		}
	case Int64ListCol:
		if l, ok := v.([]interface{}); ok {
			res := []int64{}
			for _, e := range l {
				if f, ok2 := e.(float64); ok2 {
					res = append(res, int64(f))
				}
			}

			return res
		}
		if v == nil {
			return []int64{}
		}
	case ServiceMemberListCol:
		if l, ok := v.([]interface{}); ok {
			res := [][2]string{}
			for _, e := range l {
				if p, ok2 := e.([]interface{}); ok2 && len(p) == 2 {
					res = append(res, [2]string{fmt.Sprintf("%v", p[0]), fmt.Sprintf("%v", p[1])})
				}
			}

			return res
		}
		if v == nil {
			return [][2]string{}
		}
	}

	return v
}

// ---- snapshot writer (the exporter's directory layout) ------------------------

func qeJSONValue(v interface{}) interface{} {
	switch val := v.(type) {
	case qeMilli:
		return json.RawMessage(qeMilliString(int64(val)))
	default:
		return v
	}
}

func qeMilliString(m int64) string {
	neg := ""
	if m < 0 {
		neg = "-"
		m = -m
	}
	str := fmt.Sprintf("%s%d.%03d", neg, m/1000, m%1000)
	str = strings.TrimRight(str, "0")
	str = strings.TrimSuffix(str, ".")

	return str
}

func qeWriteTable(path string, cols []string, rows [][]interface{}) {
	var sb strings.Builder
	head, _ := json.Marshal(cols)
	sb.WriteString("[")
	sb.Write(head)
	for _, row := range rows {
		conv := make([]interface{}, len(row))
		for i := range row {
			conv[i] = qeJSONValue(row[i])
		}
		buf, err := json.Marshal(conv)
		if err != nil {
			panic(err)
		}
		sb.WriteString(",\n")
		sb.Write(buf)
	}
	sb.WriteString("]\n")
	if err := os.WriteFile(path, []byte(sb.String()), 0o644); err != nil {
		panic(err)
	}
}

func (ds *qeDataset) writeSnapshot(dir string) {
	_ = os.RemoveAll(dir)
	for i, bk := range ds.Backends {
		bdir := filepath.Join(dir, "sites", fmt.Sprintf("%03d_%s", i, bk.Key))
		if err := os.MkdirAll(bdir, 0o755); err != nil {
			panic(err)
		}
		qeWriteTable(filepath.Join(bdir, "backends.json"),
			[]string{"peer_key", "peer_name", "addr", "section", "flags", "status", "last_update", "last_error", "last_online", "queries", "response_time"},
			[][]interface{}{{bk.Key, bk.Name, "verif.sock", "", bk.Flags, 0, 1700000000, "", 1700000000, 5, qeMilli(10)}})
		for _, t := range bk.Tables {
			qeWriteTable(filepath.Join(bdir, t.Name+".json"), t.Cols, t.Rows)
		}
	}
}

// qeLoad builds a daemon from the dataset through the real importer.
func qeLoad(ds *qeDataset, dir string) (lmd *Daemon, err error) {
	defer func() {
		if r := recover(); r != nil {
			lmd = nil
			err = fmt.Errorf("import panic: %v", r)
			_ = os.RemoveAll(dir)
		}
	}()
	if ds == nil || len(ds.Backends) == 0 {
		return nil, fmt.Errorf("empty dataset")
	}
	ds.writeSnapshot(dir)
	lmd = verifNewDaemon()
	lmd.flags.flagImport = dir
	if err = initializePeersWithImport(lmd, dir); err != nil {
		_ = os.RemoveAll(dir)

		return nil, err
	}
	for _, bk := range ds.Backends {
		peer := lmd.PeerMap[bk.Key]
		if peer == nil {
			return nil, fmt.Errorf("backend %s missing after import", bk.Key)
		}
		if !bk.Avail {
			peer.peerState.Set(PeerStatusDown)
			peer.lastError.Set(bk.Error)
			peer.data.Store(nil)
		} else if bk.Warn {
			peer.peerState.Set(PeerStatusWarning)
			peer.lastError.Set(bk.Error)
		}
	}
	_ = os.RemoveAll(dir)

	return lmd, nil
}

// ---- Coq emission --------------------------------------------------------------

func qeCoqValue(v interface{}) string {
	switch val := v.(type) {
	case string:
		return "VStr " + coqStr(val)
	case int64:
		return "VInt " + coqZ(val)
	case int:
		return "VInt " + coqZ(int64(val))
	case qeMilli:
		return "VFloat " + coqZ(int64(val))
	case []string:
		return "VStrList " + coqStrList(val)
	case []int64:
		parts := []string{}
		for _, x := range val {
			parts = append(parts, coqZ(x)+"%Z")
		}

		return "VIntList " + coqList(parts)
	case [][2]string:
		parts := []string{}
		for _, p := range val {
			parts = append(parts, fmt.Sprintf("(%s, %s)", coqStr(p[0]), coqStr(p[1])))
		}

		return "VPairs " + coqList(parts)
	}
	panic(fmt.Sprintf("qeCoqValue: unsupported %T", v))
}

func qeFlagBits(flags []string) uint32 {
	f := NoFlags
	f.Load(flags)

	return uint32(f)
}

func (ds *qeDataset) coq(name string) string {
	var sb strings.Builder
	bnames := []string{}
	for i, bk := range ds.Backends {
		tparts := []string{}
		for _, t := range bk.Tables {
			rows := []string{}
			for _, row := range t.Rows {
				cells := []string{}
				for _, c := range row {
					cells = append(cells, qeCoqValue(c))
				}
				rows = append(rows, coqList(cells))
			}
			tparts = append(tparts, fmt.Sprintf("mkData %s %s %s", coqStr(t.Name), coqStrList(t.Cols), "["+strings.Join(rows, ";\n   ")+"]"))
		}
		bn := fmt.Sprintf("%s_b%d", name, i)
		bnames = append(bnames, bn)
		fmt.Fprintf(&sb, "Definition %s : backend := mkBackend %s %s %d %s %s [\n  %s].\n", bn, coqStr(bk.Key), coqStr(bk.Name),
			qeFlagBits(bk.Flags), coqBool(bk.Avail), coqStr(bk.Error), strings.Join(tparts, ";\n  "))
	}
	fmt.Fprintf(&sb, "Definition %s : dataset := %s.\n", name, coqList(bnames))

	return sb.String()
}

var qeLoadCounter atomic.Int64
