//go:build verif

package lmd

import (
	"bufio"
	"context"
	"fmt"
	"strings"
)

// qeInternals dumps two internal observables of the query engine for one request text:
//   - per backend of the dataset: the ids of the rows DataStore.GetPreFilteredData selects for req.Filter,
//     in the order they are returned (None = the whole table, no index used / table not stored),
//   - the shape of req.StatsGrouped (ParseOptimize only).
//
// They are compared with QE/Index.v prefilter_ids and QE/StatsOpt.v shapes (optimize ..) in C07/Run.v.
func qeInternals(lmd *Daemon, dataset *qeDataset, text string, optimize bool) (term string) {
	term = "None"
	defer func() {
		if r := recover(); r != nil {
			term = "None"
		}
	}()
	mode := ParseDefault
	if optimize {
		mode = ParseOptimize
	}
	req, _, err := NewRequest(context.Background(), lmd, bufio.NewReader(strings.NewReader(text)), mode)
	if err != nil || req == nil {
		return "None"
	}
	cands := []string{}
	for _, bk := range dataset.Backends {
		cands = append(cands, qeCandidates(lmd, bk.Key, req))
	}
	shape := "None"
	if optimize {
		shape = "(Some " + qeShapes(req.StatsGrouped) + ")"
	}

	return fmt.Sprintf("(Some (mkInt %s %s))", coqList(cands), shape)
}

func qeCandidates(lmd *Daemon, key string, req *Request) string {
	lmd.PeerMapLock.RLock()
	peer := lmd.PeerMap[key]
	lmd.PeerMapLock.RUnlock()
	if peer == nil {
		return "None"
	}
	data := peer.data.Load()
	if data == nil {
		return "None"
	}
	switch req.Table {
	case TableCommands, TableComments, TableContactgroups, TableContacts, TableDowntimes, TableHostgroups, TableHosts,
		TableServicegroups, TableServices, TableStatus, TableTimeperiods:
	default:
		return "None"
	}
	store := data.Get(req.Table)
	if store == nil {
		return "None"
	}
	store.lock.RLock()
	defer store.lock.RUnlock()
	rows := store.GetPreFilteredData(req.Filter)
	if len(rows) == len(store.data) && (len(rows) == 0 || &rows[0] == &store.data[0]) {
		// d.data itself: no pre-selection
		return "None"
	}
	ids := make([]string, 0, len(rows))
	for _, row := range rows {
		ids = append(ids, coqStr(row.GetID()))
	}

	return "(Some " + coqList(ids) + ")"
}

func qeShapes(grouped []*Filter) string {
	if grouped == nil {
		return "None"
	}

	return "(Some " + qeShapeList(grouped) + ")"
}

func qeShapeList(l []*Filter) string {
	parts := []string{}
	for _, f := range l {
		if f.statsType == StatsGroup {
			parts = append(parts, "ShGroup "+qeShapeList(f.filter))
		} else {
			parts = append(parts, fmt.Sprintf("ShPlain %d %d", f.statsPos, len(f.filter)))
		}
	}

	return coqList(parts)
}
