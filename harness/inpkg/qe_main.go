//go:build verif

package lmd

import (
	"bufio"
	"context"
	"fmt"
	"os"
	"path/filepath"
	"strings"
)

// qeInput is one self-contained, replayable case.
type qeInput struct {
	DS        *qeDataset `json:"ds"`
	Lines     []string   `json:"lines"`
	Optimize  bool       `json:"optimize"`
	SvcStrict bool       `json:"svc_strict"`
	GrpStrict bool       `json:"grp_strict"`
	Cluster   [][]string `json:"cluster,omitempty"` // C18: backend ids per node, the request goes to node 0
	SvcAuth   string     `json:"svc_auth,omitempty"` // raw ServiceAuthorization option text (overrides SvcStrict when set)
	GrpAuth   string     `json:"grp_auth,omitempty"` // raw GroupAuthorization option text
}

type qeProfile struct {
	name                                                       string
	pFilter, pStats, pSort, pLimit, pAuth, pBackends, pWrapped int
	pGrouped, pIndexLeaf                                       int
	maxDepth, maxBackends, maxHosts, perDataset                int
	tables                                                     []string
	bothModes                                                  bool // run every text in both parse modes (C07)
	downBackends                                               bool // put some backends into down state (C04)
	roundtrip                                                  bool // C17: also run Request.String() of the parsed request
	cluster                                                    bool // C18: answer through a two/three node in-process cluster
	rule                                                       string
}

var qeAllTables = []string{"hosts", "hosts", "hosts", "services", "services", "services", "hostgroups", "servicegroups", "contacts", "contactgroups",
	"commands", "timeperiods", "comments", "comments", "downtimes", "status", "hostsbygroup", "servicesbygroup", "servicesbyhostgroup"}

var qeProfiles = map[string]*qeProfile{
	"c01": {name: "c01", pIndexLeaf: 30, pFilter: 100, pStats: 0, pSort: 0, pLimit: 0, pAuth: 0, pBackends: 10, pWrapped: 30, maxDepth: 4, maxBackends: 3, maxHosts: 8, perDataset: 12, tables: qeAllTables,
		rule: "generated datasets (1-3 backends, overlapping mixed-case/dotted/non-ASCII names, lists, ids beyond 8 bit, optional columns per flavour) x generated GET requests with filter trees (every operator x column type, And/Or/Negate nesting up to depth 4). non-trivial: the filter selects a proper, non-empty subset of the rows or uses a group/negation; distinct by request text+dataset"},
	"c05": {name: "c05", pGrouped: 45, pFilter: 50, pStats: 100, pSort: 0, pLimit: 0, pAuth: 10, pBackends: 10, pWrapped: 10, maxDepth: 2, maxBackends: 4, maxHosts: 8, perDataset: 12, tables: []string{"hosts", "services", "services", "comments", "hostgroups"},
		rule: "generated Stats programs (1-4 counters/aggregates, nested StatsAnd/StatsOr/StatsNegate, optional group-by Columns) over 1-4 backends"},
	"c06": {name: "c06", pIndexLeaf: 40, pFilter: 40, pStats: 0, pSort: 80, pLimit: 90, pAuth: 10, pBackends: 10, pWrapped: 50, maxDepth: 1, maxBackends: 4, maxHosts: 8, perDataset: 12, tables: []string{"hosts", "hosts", "services", "services", "comments", "hostgroups", "contacts"},
		rule: "generated Sort (0-3 keys asc/desc incl. custom variables and keys outside Columns, default order), Limit, Offset combinations over 1-4 backends with interleaving names, json and wrapped_json"},
	"c07": {name: "c07", pIndexLeaf: 50, pGrouped: 50, pFilter: 100, pStats: 30, pSort: 10, pLimit: 10, pAuth: 0, pBackends: 0, pWrapped: 20, maxDepth: 3, maxBackends: 2, maxHosts: 8, perDataset: 10, tables: []string{"hosts", "hosts", "services", "services", "services", "comments", "hostgroups", "contacts"}, bothModes: true,
		rule: "every generated request text is parsed in both modes (ParseDefault, ParseOptimize) and evaluated on the same store; indexable shapes (name/host_name/groups/host_groups/primary key with = =~ ~ ~~) mixed with other terms, regexes with leading/trailing .* and ^...$"},
	"c08": {name: "c08", pFilter: 40, pStats: 30, pSort: 0, pLimit: 0, pAuth: 100, pBackends: 0, pWrapped: 20, maxDepth: 2, maxBackends: 2, maxHosts: 8, perDataset: 12, tables: []string{"hosts", "services", "hostgroups", "servicegroups", "hostsbygroup", "servicesbygroup", "servicesbyhostgroup", "comments", "downtimes", "contacts", "commands"},
		rule: "generated contact assignments x 4 authorisation settings x all tables x data and Stats requests with AuthUser and extra filters"},
	"c17": {name: "c17", pGrouped: 25, pFilter: 90, pStats: 35, pSort: 40, pLimit: 30, pAuth: 15, pBackends: 10, pWrapped: 30, maxDepth: 3, maxBackends: 2, maxHosts: 8, perDataset: 10, tables: qeAllTables, bothModes: true, roundtrip: true,
		rule: "every generated request (every operator x column type, nested negated groups, empty values, custom variable terms, Stats counters/aggregates incl. groupable blocks, Sort incl. custom variable keys, Limit/Offset, AuthUser) is parsed in both modes, serialised with Request.String(), parsed again and both are evaluated on the same store"},
	"c18": {name: "c18", pGrouped: 10, pFilter: 60, pStats: 30, pSort: 50, pLimit: 40, pAuth: 10, pBackends: 25, pWrapped: 50, maxDepth: 2, maxBackends: 4, maxHosts: 6, perDataset: 10, tables: []string{"hosts", "hosts", "services", "services", "comments", "hostgroups", "contacts", "downtimes"}, cluster: true,
		rule: "datasets of 2-4 backends distributed over 2-3 in-process lmd nodes connected through their real HTTP /query endpoint; generated data / Stats / sorted / limited requests, with and without Backends header, sent to node 0 which holds only part of the backends; expected = the model's answer for a single lmd holding all backends"},
	"c04": {name: "c04", pFilter: 20, pStats: 20, pSort: 20, pLimit: 10, pAuth: 0, pBackends: 90, pWrapped: 70, maxDepth: 1, maxBackends: 4, maxHosts: 5, perDataset: 12, tables: append([]string{"sites", "sites"}, qeAllTables...), downBackends: true,
		rule: "1-4 backends, random subset without data (down), all Backends header shapes (subset, unknown ids, duplicates), all tables incl. sites, json and wrapped_json"},
}

func init() {
	verifRegister("qe", "query engine streams: qe --profile c01|c04|c05|c06|c07|c08", qeMain)
}

func qeWorkDir() string {
	dir := filepath.Join(os.TempDir(), fmt.Sprintf("lmdverif-%d-%d", os.Getpid(), qeLoadCounter.Add(1)))

	return dir
}

// qeRunInputs evaluates the inputs (grouped by identical dataset pointer) and writes the cases file.
func qeRunInputs(inputs []*qeInput, flags *verifStreamFlags, meta *vMeta, roundtrip bool, runModule string) {
	var sb strings.Builder
	if roundtrip {
		sb.WriteString("From LMD Require Import C17.Run.\nOpen Scope N_scope.\nOpen Scope string_scope.\n")
	} else {
		sb.WriteString("From LMD Require Import " + runModule + ".\nOpen Scope N_scope.\nOpen Scope string_scope.\n")
	}
	names := []string{}
	internals := runModule == "C07.Run" && !roundtrip // also dump the index pre-selection and the grouped stats shape
	clusterCases := runModule == "C18.RunQ" && !roundtrip
	var lastDS *qeDataset
	var lmd *Daemon
	var cluster *qeCluster
	defer func() {
		if cluster != nil {
			cluster.close()
		}
	}()
	dsName := ""
	dsCount := 0
	for i, in := range inputs {
		invalid := false
		if in.DS != lastDS {
			lastDS = in.DS
			dsName = fmt.Sprintf("d%d", dsCount)
			dsCount++
			var err error
			if cluster != nil {
				cluster.close()
				cluster = nil
			}
			if len(in.Cluster) > 0 {
				cluster, err = qeNewCluster(in.DS, in.Cluster)
				if err == nil {
					lmd = cluster.lmds[0]
				}
			} else {
				lmd, err = qeLoad(in.DS, qeWorkDir())
			}
			if err != nil {
				lmd = nil
			} else {
				sb.WriteString(in.DS.coq(dsName))
			}
		}
		if lmd == nil {
			invalid = true
		}
		if invalid {
			// not a loadable snapshot (only produced by shrinking): trivially agreeing case
			if roundtrip {
				fmt.Fprintf(&sb, "Definition c%d : rcase := mkR (mkQ (mkCfg false true) [] true [] (OError 400)) [] (OError 400).\n", i)
			} else {
				fmt.Fprintf(&sb, "Definition c%d : qcase := mkQ (mkCfg false true) [] true [] (OError 400).\n", i)
			}
			if internals {
				fmt.Fprintf(&sb, "Definition x%d : xcase := mkX c%d None.\n", i, i)
				names = append(names, fmt.Sprintf("x%d", i))
			} else if clusterCases {
				fmt.Fprintf(&sb, "Definition x%d : ccase := mkCC c%d [].\n", i, i)
				names = append(names, fmt.Sprintf("x%d", i))
			} else {
				names = append(names, fmt.Sprintf("c%d", i))
			}
			meta.add(fmt.Sprintf("invalid%d", i), false, in)

			continue
		}
		lmd.Config.ServiceAuthorization = AuthLoose
		if in.SvcStrict {
			lmd.Config.ServiceAuthorization = AuthStrict
		}
		lmd.Config.GroupAuthorization = AuthLoose
		if in.GrpStrict {
			lmd.Config.GroupAuthorization = AuthStrict
		}
		cfgTerm := fmt.Sprintf("(mkCfg %s %s)", coqBool(in.SvcStrict), coqBool(in.GrpStrict))
		if in.SvcAuth != "" || in.GrpAuth != "" {
			// through the real option normalisation, as the configuration file reader does
			lmd.Config.ServiceAuthorization = strings.TrimPrefix(in.SvcAuth, "=")
			lmd.Config.GroupAuthorization = strings.TrimPrefix(in.GrpAuth, "=")
			lmd.Config.SetServiceAuthorization()
			lmd.Config.SetGroupAuthorization()
			cfgTerm = fmt.Sprintf("(mkCfg (parse_auth false %s) (parse_auth true %s))",
				coqStr(strings.TrimPrefix(in.SvcAuth, "=")), coqStr(strings.TrimPrefix(in.GrpAuth, "=")))
		}
		text := strings.Join(in.Lines, "\n") + "\n\n"
		var obs *qeObs
		if len(in.Cluster) > 0 {
			for _, node := range cluster.lmds {
				node.Config.ServiceAuthorization = lmd.Config.ServiceAuthorization
				node.Config.GroupAuthorization = lmd.Config.GroupAuthorization
			}
			obs = qeRunClusterQuery(lmd, text, in.Optimize)
		} else {
			obs = qeRunQuery(lmd, text, in.Optimize)
		}
		lines := []string{}
		for _, l := range in.Lines {
			lines = append(lines, coqStr(l))
		}
		if roundtrip {
			rtText, rtObs := qeRoundtrip(lmd, text, in.Optimize)
			rtLines := []string{}
			for _, l := range strings.Split(strings.TrimRight(rtText, "\n"), "\n") {
				rtLines = append(rtLines, coqStr(l))
			}
			fmt.Fprintf(&sb, "Definition c%d : rcase := mkR (mkQ %s %s %s %s\n  (%s))\n  %s\n  (%s).\n", i, cfgTerm,
				dsName, coqBool(in.Optimize), coqList(lines), obs.coq(), coqList(rtLines), rtObs.coq())
		} else {
			fmt.Fprintf(&sb, "Definition c%d : qcase := mkQ %s %s %s %s\n  (%s).\n", i, cfgTerm,
				dsName, coqBool(in.Optimize), coqList(lines), obs.coq())
		}
		if internals {
			fmt.Fprintf(&sb, "Definition x%d : xcase := mkX c%d %s.\n", i, i, qeInternals(lmd, in.DS, text, in.Optimize))
			names = append(names, fmt.Sprintf("x%d", i))
		} else if clusterCases {
			parts := []string{}
			for _, node := range in.Cluster {
				parts = append(parts, coqStrList(node))
			}
			fmt.Fprintf(&sb, "Definition x%d : ccase := mkCC c%d %s.\n", i, i, coqList(parts))
			names = append(names, fmt.Sprintf("x%d", i))
		} else {
			names = append(names, fmt.Sprintf("c%d", i))
		}
		meta.count("answer:" + obs.kind)
		if obs.kind == "error" {
			meta.count(fmt.Sprintf("error:%d", obs.code))
		}
		nontrivial := obs.kind != "error" && len(in.Lines) > 2
		if obs.kind == "data" {
			meta.count(fmt.Sprintf("rows:%s", qeBucket(len(obs.rows))))
		}
		meta.add(text+fmt.Sprintf("|%p|%v", in.DS, in.Optimize), nontrivial, in)
	}
	if roundtrip {
		sb.WriteString("Definition cases : list rcase := " + coqList(names) + ".\n")
	} else if internals {
		sb.WriteString("Definition cases : list xcase := " + coqList(names) + ".\n")
	} else if clusterCases {
		sb.WriteString("Definition cases : list ccase := " + coqList(names) + ".\n")
	} else {
		sb.WriteString("Definition cases : list qcase := " + coqList(names) + ".\n")
	}
	sb.WriteString("Definition M := Eval vm_compute in mismatches cases.\nPrint M.\n")
	sb.WriteString("Definition SK := Eval vm_compute in skipped cases.\nPrint SK.\n")
	if internals {
		sb.WriteString("Definition HY := Eval vm_compute in hyp_failed cases.\nPrint HY.\n")
	}
	if err := os.WriteFile(flags.out, []byte(sb.String()), 0o644); err != nil {
		panic(err)
	}
}

func qeBucket(n int) string {
	switch {
	case n == 0:
		return "0"
	case n <= 2:
		return "1-2"
	case n <= 10:
		return "3-10"
	}

	return ">10"
}

func qeMain(args []string) int {
	profile := "c01"
	rest := []string{}
	for i := 0; i < len(args); i++ {
		if args[i] == "--profile" && i+1 < len(args) {
			profile = args[i+1]
			i++

			continue
		}
		rest = append(rest, args[i])
	}
	flags := verifParseStreamFlags("qe", rest)
	prof := qeProfiles[profile]
	if prof == nil {
		fmt.Fprintf(os.Stderr, "unknown profile %s\n", profile)

		return 2
	}
	meta := newVMeta(profile, prof.rule)
	inputs := []*qeInput{}
	if flags.replay != "" {
		vReadReplay(flags.replay, &inputs)
		for _, in := range inputs {
			if in.DS != nil {
				in.DS.fixTypes()
			}
		}
	} else {
		rnd := newVRand(flags.seed)
		for len(inputs) < flags.n {
			ds := qeGenDataset(rnd.fork(), prof.maxBackends, prof.maxHosts)
			if prof.cluster {
				ds.sortCustomVars()
			}
			if prof.downBackends {
				for _, bk := range ds.Backends {
					if rnd.chance(1, 3) {
						bk.Avail = false
						bk.Error = vPick(rnd, []string{"connection refused", "broken: got garbage"})
					} else if rnd.chance(1, 4) {
						// stale but still served: the model sees an available backend
						bk.Warn = true
						bk.Error = "connection timed out"
					}
				}
			}
			gen := &qeGen{r: rnd.fork(), ds: ds, pFilter: prof.pFilter, pStats: prof.pStats, pSort: prof.pSort, pLimit: prof.pLimit, pAuth: prof.pAuth,
				pBackends: prof.pBackends, pWrapped: prof.pWrapped, pGrouped: prof.pGrouped, pIndexLeaf: prof.pIndexLeaf, maxDepth: prof.maxDepth, tables: prof.tables, hist: meta.Histogram}
			if prof.cluster {
				// the table's default order with a small window: every node cuts its part at Limit+Offset
				gen.pCutoff = 30
			}
			svcStrict, grpStrict := false, true
			svcAuth, grpAuth := "", ""
			if prof.pAuth > 50 {
				svcStrict, grpStrict = rnd.chance(1, 2), rnd.chance(1, 2)
				if rnd.chance(1, 2) {
					// option texts as an administrator may spell them ("=" marks an explicitly empty option)
					svcAuth = vPick(rnd, []string{"strict", "Strict", "STRICT", "loose", "Loose", "=", "bogus"})
					grpAuth = vPick(rnd, []string{"strict", "Strict", "loose", "LOOSE", "Loose", "=", "bogus"})
				}
			}
			var assign [][]string
			if prof.cluster {
				nNodes := 2 + rnd.intn(2)
				assign = make([][]string, nNodes)
				pile := len(ds.Backends) >= 3 && rnd.chance(1, 2)
				for i, bk := range ds.Backends {
					k := rnd.intn(nNodes)
					if pile {
						// one backend on the contacted node, all others together on a partner node
						// (which has to merge them before it cuts its part of the answer)
						k = 1
						if i == 0 {
							k = 0
						}
					}
					assign[k] = append(assign[k], bk.Key)
				}
			}
			for q := 0; q < prof.perDataset && len(inputs) < flags.n; q++ {
				text := gen.request()
				lines := strings.Split(strings.TrimRight(text, "\n"), "\n")
				if prof.bothModes {
					inputs = append(inputs, &qeInput{DS: ds, Lines: lines, Optimize: false, SvcStrict: svcStrict, GrpStrict: grpStrict})
				}
				inputs = append(inputs, &qeInput{DS: ds, Lines: lines, Optimize: true, SvcStrict: svcStrict, GrpStrict: grpStrict, Cluster: assign, SvcAuth: svcAuth, GrpAuth: grpAuth})
			}
		}
	}
	runModule := "QE.Run"
	if (prof.bothModes && !prof.roundtrip) || prof.name == "c06" || prof.name == "c01" {
		// adds the cross-mode comparison of the model's answers and the internal observables
		// (index pre-selection in store order: the precondition of C06's per-backend cut-off)
		runModule = "C07.Run"
	}
	if prof.cluster {
		runModule = "C18.RunQ" // adds the comparison with the model of the cluster merge
	}
	qeRunInputs(inputs, flags, meta, prof.roundtrip, runModule)
	meta.write(flags.meta)

	return 0
}

// qeRoundtrip parses the text in the given mode, serialises the request and evaluates the serialised text (ParseDefault).
func qeRoundtrip(lmd *Daemon, text string, optimize bool) (str string, obs *qeObs) {
	obs = &qeObs{kind: "error", code: 997}
	defer func() {
		if r := recover(); r != nil {
			obs = &qeObs{kind: "error", code: 999, rawBody: fmt.Sprintf("panic: %v", r)}
		}
	}()
	mode := ParseDefault
	if optimize {
		mode = ParseOptimize
	}
	req, _, err := NewRequest(context.Background(), lmd, bufio.NewReader(strings.NewReader(text)), mode)
	if err != nil || req == nil {
		return "", &qeObs{kind: "error", code: 400}
	}
	str = req.String()
	obs = qeRunQuery(lmd, str, false)

	return str, obs
}
