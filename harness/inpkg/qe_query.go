//go:build verif

package lmd

import (
	"fmt"
	"strings"
)

// qeGen generates request texts for one dataset.
type qeGen struct {
	r  *vRand
	ds *qeDataset
	// knobs
	pFilter, pStats, pSort, pLimit, pAuth, pBackends, pWrapped, pGrouped, pIndexLeaf int // percent
	maxDepth                                                                         int
	pCutoff                                                                          int // percent of hosts/services requests of the cut-off shape
	tables                                                                           []string
	hist                                                                             map[string]int
}

var qeOps = []string{"=", "!=", "=~", "!=~", "~", "!~", "~~", "!~~", "<", "<=", ">", ">=", "!>=", "like", "unlike", "ilike", "iunlike"}

// curated query columns per table: local, reference, virtual, optional, unknown
var qeQueryCols = map[string][]string{
	"hosts": {"name", "alias", "address", "display_name", "state", "acknowledged", "scheduled_downtime_depth", "groups", "contacts",
		"custom_variables", "custom_variable_names", "latency", "execution_time", "comments", "downtimes", "num_services", "last_check", "plugin_output",
		"long_plugin_output", "services", "check_command", "current_attempt", "peer_key", "peer_name", "obsess", "check_source", "is_impact", "realm",
		"has_long_plugin_output", "host_name", "nosuchcolumn", "check_freshness", "total_services", "notes"},
	"services": {"host_name", "description", "display_name", "state", "acknowledged", "groups", "contacts", "custom_variables", "latency",
		"comments", "downtimes", "last_check", "plugin_output", "check_command", "peer_key", "host_alias", "host_state", "host_groups", "host_contacts",
		"host_custom_variables", "host_latency", "host_address", "host_num_services", "host_comments", "obsess", "check_source", "service_description", "state_order",
		"host_check_command", "host_plugin_output", "host_acknowledged"},
	"hostgroups":          {"name", "alias", "members", "num_hosts", "peer_key"},
	"servicegroups":       {"name", "alias", "members", "peer_key"},
	"contacts":            {"name", "alias", "email", "can_submit_commands", "peer_key"},
	"contactgroups":       {"name", "alias", "members"},
	"commands":            {"name", "line", "peer_key"},
	"timeperiods":         {"name", "alias", "in"},
	"comments":            {"id", "author", "comment", "host_name", "service_description", "entry_time", "entry_type", "type", "is_service", "host_alias", "host_state", "host_groups", "service_state", "service_plugin_output", "service_contacts", "peer_key", "host_contacts"},
	"downtimes":           {"id", "author", "comment", "host_name", "service_description", "start_time", "end_time", "fixed", "duration", "host_alias", "service_state", "peer_name"},
	"status":              {"program_start", "nagios_pid", "livestatus_version", "program_version", "enable_notifications", "peer_key", "peer_name"},
	"hostsbygroup":        {"name", "hostgroup_name", "alias", "state", "groups", "contacts", "peer_key", "hostgroup_alias"},
	"servicesbygroup":     {"host_name", "description", "servicegroup_name", "state", "groups", "contacts", "host_alias", "peer_key"},
	"servicesbyhostgroup": {"host_name", "description", "hostgroup_name", "state", "host_groups", "contacts", "peer_key"},
	"sites":               {"peer_key", "peer_name", "key", "name"},
}

func (g *qeGen) count(k string) { g.hist[k]++ }

// values of a column found in the data (as strings usable in a filter)
func (g *qeGen) dataValues(table, col string) []string {
	res := []string{}
	src := table
	name := col
	switch {
	case strings.HasPrefix(col, "host_") && table != "hosts" && col != "host_name" && col != "host_groups":
		src, name = "hosts", strings.TrimPrefix(col, "host_")
	case strings.HasPrefix(col, "service_") && (table == "comments" || table == "downtimes") && col != "service_description":
		src, name = "services", strings.TrimPrefix(col, "service_")
	case table == "hostsbygroup":
		src = "hosts"
		if col == "hostgroup_name" {
			src, name = "hostgroups", "name"
		}
	case table == "servicesbygroup" || table == "servicesbyhostgroup":
		src = "services"
		if col == "hostgroup_name" {
			src, name = "hostgroups", "name"
		}
		if col == "servicegroup_name" {
			src, name = "servicegroups", "name"
		}
	}
	if col == "host_groups" {
		src, name = "hosts", "groups"
	}
	for _, bk := range g.ds.Backends {
		t := bk.table(src)
		if t == nil {
			continue
		}
		ci := t.col(name)
		if ci < 0 {
			continue
		}
		for _, row := range t.Rows {
			switch v := row[ci].(type) {
			case string:
				res = append(res, v)
			case int64:
				res = append(res, fmt.Sprintf("%d", v))
			case qeMilli:
				res = append(res, qeMilliString(int64(v)))
			case []string:
				res = append(res, v...)
			case []int64:
				for _, x := range v {
					res = append(res, fmt.Sprintf("%d", x))
				}
			}
		}
	}

	return res
}

func qeSwapCase(s string) string {
	out := []rune{}
	for _, c := range s {
		switch {
		case c >= 'a' && c <= 'z':
			out = append(out, c-32)
		case c >= 'A' && c <= 'Z':
			out = append(out, c+32)
		case c == 'ü':
			out = append(out, 'Ü')
		case c == 'Ü':
			out = append(out, 'ü')
		case c == 'Ä':
			out = append(out, 'ä')
		case c == 'ä':
			out = append(out, 'Ä')
		default:
			out = append(out, c)
		}
	}

	return string(out)
}

func qeRegexQuote(s string) string {
	var sb strings.Builder
	for _, c := range s {
		if strings.ContainsRune(`\.+*?()|[]{}^$`, c) {
			sb.WriteRune('\\')
		}
		sb.WriteRune(c)
	}

	return sb.String()
}

// a regular expression (supported subset) derived from a data value
func (g *qeGen) regexFrom(v string) string {
	r := g.r
	runes := []rune(v)
	if len(runes) == 0 {
		return vPick(r, []string{"", ".*", "^$", "a|b", "x?"})
	}
	if d := strings.IndexRune(v, '.'); d >= 0 && r.chance(1, 2) {
		// an escaped dot, in a pattern which stays a regular expression: it must keep matching the dot only
		upto := string([]rune(v)[:len([]rune(v[:d]))+1])
		switch r.intn(4) {
		case 0:
			return "^" + qeRegexQuote(v) + "$"
		case 1:
			return "^" + qeRegexQuote(upto)
		case 2:
			return qeRegexQuote(v) + "|zzz"
		default:
			return qeRegexQuote(upto) + "[a-z0-9]*$"
		}
	}
	lo, hi := r.intn(len(runes)), 0
	hi = lo + 1 + r.intn(len(runes)-lo)
	part := string(runes[lo:hi])
	switch r.intn(19) {
	case 16, 17:
		// a dot between alphanumerics (host name heuristic: plain text for the optimiser, a wildcard for a backend)
		if d := qeDotted(r, runes); d != "" {
			return d
		}

		return part
	case 18:
		return part + vPick(r, []string{")", "]", "}", ")x"}) // plain text for the optimiser, not a pattern
	case 14:
		return "^" + qeSwapCase(v) + "$" // anchored literal in another case (~~ must still find it)
	case 15:
		return "^" + qeSwapCase(part)
	case 0:
		return part // plain substring (may contain a dot: the documented heuristic)
	case 1:
		return "^" + qeRegexQuote(v) + "$"
	case 2:
		return "^" + v + "$"
	case 3:
		return ".*" + part
	case 4:
		return part + ".*"
	case 5:
		return ".*" + part + ".*"
	case 6:
		return "^" + qeRegexQuote(string(runes[:hi]))
	case 7:
		return qeRegexQuote(string(runes[lo:])) + "$"
	case 8:
		return qeRegexQuote(part) + "|zzz"
	case 9:
		return "(" + qeRegexQuote(part) + ")+"
	case 10:
		return "[" + qeRegexQuote(string(runes[lo])) + "x]" + qeRegexQuote(string(runes[lo+1:hi]))
	case 11:
		return qeRegexQuote(string(runes[:lo])) + ".+"
	case 12:
		return qeSwapCase(part)
	default:
		return qeRegexQuote(string(runes[lo:hi])) + "?" + "\\w*"
	}
}

// qeDotted replaces one character of v, which has an alphanumeric before and a letter behind it, by a dot:
// as a pattern it still matches v, as plain text it does not
func qeDotted(r *vRand, runes []rune) string {
	isAlnum := func(c rune) bool {
		return (c >= 'a' && c <= 'z') || (c >= 'A' && c <= 'Z') || (c >= '0' && c <= '9')
	}
	isAlpha := func(c rune) bool { return (c >= 'a' && c <= 'z') || (c >= 'A' && c <= 'Z') }
	cand := []int{}
	for i := 1; i+1 < len(runes); i++ {
		if isAlnum(runes[i-1]) && isAlpha(runes[i+1]) {
			cand = append(cand, i)
		}
	}
	if len(cand) == 0 || len(runes) < 4 {
		return ""
	}
	i := cand[r.intn(len(cand))]
	out := append([]rune{}, runes...)
	out[i] = '.'
	lo := 0
	if i > 2 && r.chance(1, 2) {
		lo = r.intn(i - 1)
	}
	hi := len(out)
	if hi-i > 3 && r.chance(1, 2) {
		hi = i + 2 + r.intn(hi-i-2)
	}
	if hi-lo < 4 {
		lo, hi = 0, len(out)
	}

	return string(out[lo:hi])
}

func (g *qeGen) colType(table, col string) DataType {
	tn, err := NewTableName(table)
	if err != nil {
		return StringCol
	}
	c := Objects.Tables[tn].GetColumnWithFallback(col)

	return c.DataType
}

// indexLeaf returns a filter term of a shape the index pre-selection understands
// (name / host_name / groups / host_groups / primary key with = =~ ~ ~~ >=), "" if the table has none
func (g *qeGen) indexLeaf(table string) string {
	r := g.r
	pick := func(col string, ops []string) string {
		vals := g.dataValues(table, col)
		v := vPick(r, []string{"nothing", "Everything", "alpha"})
		if len(vals) > 0 && r.chance(5, 6) {
			v = vPick(r, vals)
		}
		op := vPick(r, ops)
		switch {
		case r.chance(1, 5):
			v = qeSwapCase(v)
		case (op == "~" || op == "~~") && r.chance(1, 2):
			v = g.regexFrom(v)
		}
		g.count("indexleaf:" + col + op)

		return fmt.Sprintf("%s %s %s", col, op, v)
	}
	switch table {
	case "hosts":
		if r.chance(1, 2) {
			return pick("name", []string{"=", "=", "=~", "~~", "~"})
		}

		return pick("groups", []string{">=", ">=", "~", "~~"})
	case "services":
		switch r.intn(3) {
		case 0:
			return pick("host_name", []string{"=", "=", "~", "~~", "=~"})
		case 1:
			return pick("host_groups", []string{">=", ">=", "~", "~~"})
		default:
			return pick("groups", []string{">=", ">=", "~", "~~"})
		}
	case "hostgroups", "servicegroups", "contacts", "contactgroups", "commands", "timeperiods":
		return pick("name", []string{"=", "=", "=~"})
	case "comments", "downtimes":
		return pick("id", []string{"=", "="})
	}

	return ""
}

func (g *qeGen) leaf(table string) string {
	r := g.r
	if r.intn(100) < g.pIndexLeaf {
		if l := g.indexLeaf(table); l != "" {
			return l
		}
	}
	cols := qeQueryCols[table]
	col := vPick(r, cols)
	dt := g.colType(table, col)
	op := vPick(r, qeOps)
	vals := g.dataValues(table, col)
	val := ""
	isRegexOp := op == "~" || op == "!~" || op == "~~" || op == "!~~"
	switch dt {
	case IntCol, Int64Col, FloatCol, Int64ListCol:
		pool := []string{"0", "1", "2", "3", "-1", "5", "127", "128", "200", "300", "1099511627776", "1700000000", "", "0.5", "1.5", "2.125", "0.25"}
		if len(vals) > 0 && r.chance(1, 2) {
			val = vPick(r, vals)
		} else {
			val = vPick(r, pool)
		}
		if r.chance(1, 40) {
			val = vPick(r, []string{"abc", "1.2.3", "--1", "1x"})
		}
		if r.chance(1, 12) {
			val = "" // no value at all: not the number 0
		}
		if isRegexOp {
			val = vPick(r, []string{"^1", "0$", "[0-9]+", "1", "^" + val + "$", val})
		}
	case CustomVarCol:
		tag := vPick(r, append(append([]string{}, qeCVNames...), "NOPE"))
		v := vPick(r, qeCVValues)
		if isRegexOp {
			v = g.regexFrom(v)
		} else if r.chance(1, 4) {
			v = qeSwapCase(v)
		}
		val = tag + " " + v
		if r.chance(1, 6) {
			val = tag
		}
	default:
		base := ""
		if len(vals) > 0 && r.chance(4, 5) {
			base = vPick(r, vals)
		} else {
			base = vPick(r, []string{"", "nothing", "a", "Everything", "prod"})
		}
		switch {
		case (op == "~~" || op == "~") && base != "" && r.chance(1, 5):
			// the whole value, anchored, in another case: the optimiser turns it into an equality test
			val = "^" + qeSwapCase(base) + "$"
		case isRegexOp:
			val = g.regexFrom(base)
		case r.chance(1, 5):
			val = qeSwapCase(base)
		case r.chance(1, 8):
			val = ""
		case (op == "like" || op == "unlike" || op == "ilike" || op == "iunlike") && r.chance(1, 4):
			val = g.regexFrom(base) // plain text which would mean something else as a pattern
		case (op == "like" || op == "unlike" || op == "ilike" || op == "iunlike") && len(base) > 1:
			rs := []rune(base)
			lo := r.intn(len(rs))
			val = string(rs[lo : lo+1+r.intn(len(rs)-lo)])
		default:
			val = base
		}
	}
	g.count("op:" + op)
	g.count("type:" + dt.String())
	line := fmt.Sprintf("%s %s %s", col, op, val)

	return strings.TrimRight(line, " ")
}

// filterTree appends header lines for one filter expression of the given depth
func (g *qeGen) filterTree(table, prefix string, depth int, lines *[]string) {
	r := g.r
	if depth <= 0 || r.chance(2, 5) {
		*lines = append(*lines, prefix+": "+g.leaf(table))
	} else {
		n := 1 + r.intn(3)
		for i := 0; i < n; i++ {
			g.filterTree(table, prefix, depth-1, lines)
		}
		grp := "And"
		if r.chance(1, 2) {
			grp = "Or"
		}
		if prefix == "Stats" {
			grp = "Stats" + grp
		}
		*lines = append(*lines, fmt.Sprintf("%s: %d", grp, n))
		g.count("group:" + grp)
	}
	if r.chance(1, 4) {
		if prefix == "Stats" {
			*lines = append(*lines, "StatsNegate:")
		} else {
			*lines = append(*lines, "Negate:")
		}
		g.count("negate")
	}
}

func (g *qeGen) numericCols(table string) []string {
	res := []string{}
	for _, c := range qeQueryCols[table] {
		switch g.colType(table, c) {
		case IntCol, Int64Col, FloatCol:
			res = append(res, c)
		}
	}

	return res
}

// cutoffRequest: an index-answerable selection of several hosts, the table's default order and a small window:
// the per-backend cut-off relies on the pre-selected rows being in primary key order
func (g *qeGen) cutoffRequest(table string) string {
	r := g.r
	g.count("shape:cutoff")
	hcol := "name"
	lines := []string{"GET " + table, "Columns: name state"}
	if table == "services" {
		hcol = "host_name"
		lines[1] = "Columns: host_name description state"
	}
	names := g.dataValues(table, hcol)
	pickName := func() string {
		if len(names) == 0 {
			return "web"
		}

		return vPick(r, names)
	}
	shape := r.intn(5)
	// a host whose name is the beginning of another host's name: selecting both through the index is where the
	// order of the pre-selected rows can differ from the store's
	prefixName := ""
	for _, a := range names {
		for _, b := range names {
			if a != b && a != "" && strings.HasPrefix(b, a) {
				prefixName = a
			}
		}
	}
	if prefixName != "" && r.chance(2, 3) {
		shape = 6
	}
	if g.pCutoff > 0 && r.chance(1, 2) {
		shape = 5 // cluster: the whole table, every node has to merge all its backends before it cuts
	}
	authUser := ""
	if g.pAuth > 0 && r.chance(1, 3) {
		// a contact who does not see every row, no filter: rows behind the cut-off still have to be
		// authorised one by one for total_count
		shape = 5
		authUser = vPick(r, qeContacts)
		// prefer the contact who sees most (not all) rows of some backend: rows behind the cut-off to authorise
		best := 0
		for _, bk := range g.ds.Backends {
			tab := bk.table(table)
			if tab == nil {
				continue
			}
			ci := -1
			for i, c := range tab.Cols {
				if c == "contacts" {
					ci = i
				}
			}
			if ci < 0 {
				continue
			}
			count := map[string]int{}
			for _, row := range tab.Rows {
				if l, ok := row[ci].([]string); ok {
					for _, c := range l {
						count[c]++
					}
				}
			}
			for _, c := range qeContacts {
				if count[c] > best && count[c] < len(tab.Rows) {
					best, authUser = count[c], c
				}
			}
		}
	}
	switch shape {
	case 5:
	case 6:
		lines = append(lines, fmt.Sprintf("Filter: %s %s %s", hcol, vPick(r, []string{"~", "~~"}), qeRegexQuote(prefixName)))
	case 0, 1:
		rs := []rune(pickName())
		n := 1 + r.intn(3)
		if n > len(rs) {
			n = len(rs)
		}
		lines = append(lines, fmt.Sprintf("Filter: %s %s %s", hcol, vPick(r, []string{"~", "~~", "~"}), qeRegexQuote(string(rs[:n]))))
	case 2:
		n := 2 + r.intn(3)
		for i := 0; i < n; i++ {
			lines = append(lines, fmt.Sprintf("Filter: %s = %s", hcol, pickName()))
		}
		lines = append(lines, fmt.Sprintf("Or: %d", n))
	case 3:
		gcol := "groups"
		if table == "services" {
			gcol = "host_groups"
		}
		gs := g.dataValues("hostgroups", "name")
		gname := "nogroup"
		if len(gs) > 0 {
			gname = vPick(r, gs)
		}
		lines = append(lines, fmt.Sprintf("Filter: %s >= %s", gcol, gname))
	default:
		lines = append(lines, fmt.Sprintf("Filter: %s ~~ %s", hcol, vPick(r, []string{".", "^[a-z]", "e", "[0-9]"})))
	}
	if r.chance(3, 4) {
		if table == "hosts" {
			lines = append(lines, "Sort: name asc")
		} else {
			lines = append(lines, "Sort: host_name asc", "Sort: description asc")
		}
	}
	if authUser != "" {
		// a contact sees few rows: the smallest window leaves the most rows behind the cut-off
		lines = append(lines, "Limit: 1")
	} else {
		lines = append(lines, fmt.Sprintf("Limit: %d", vPick(r, []int{1, 1, 2, 3, 4})))
		if r.chance(1, 3) {
			lines = append(lines, fmt.Sprintf("Offset: %d", vPick(r, []int{1, 2, 3})))
		}
	}
	if authUser != "" {
		lines = append(lines, "AuthUser: "+authUser)
	}
	lines = append(lines, "OutputFormat: "+vPick(r, []string{"json", "wrapped_json"}))

	return strings.Join(lines, "\n") + "\n\n"
}

func (g *qeGen) request() string {
	r := g.r
	table := vPick(r, g.tables)
	g.count("table:" + table)
	if g.pCutoff > 0 && (table == "hosts" || table == "services") && r.chance(1, 8) {
		// cluster: aggregates over a selection that leaves some node without any matching row (its part of the
		// answer is the "nothing counted" placeholder, which must not take part in min / max)
		hcol := "name"
		if table == "services" {
			hcol = "host_name"
		}
		names := g.dataValues(table, hcol)
		name := "nothing"
		if len(names) > 0 {
			name = vPick(r, names)
		}
		g.count("shape:narrow-aggregate")
		lines := []string{"GET " + table, fmt.Sprintf("Filter: %s = %s", hcol, name)}
		for _, agg := range []string{"min", "max", "avg", "sum"} {
			if r.chance(2, 3) {
				lines = append(lines, fmt.Sprintf("Stats: %s %s", agg, vPick(r, []string{"latency", "execution_time", "state"})))
			}
		}
		if len(lines) == 2 {
			lines = append(lines, "Stats: min latency")
		}
		if r.chance(1, 2) {
			// counters under a contact's view: every node has to apply the restriction to its own part
			lines = []string{"GET " + table, "Stats: state = 0", "Stats: state != 0", "Stats: max state", "AuthUser: " + vPick(r, qeContacts)}
			g.count("shape:stats-authuser")
		}
		lines = append(lines, "OutputFormat: "+vPick(r, []string{"json", "wrapped_json"}))

		return strings.Join(lines, "\n") + "\n\n"
	}
	if (table == "hosts" || table == "services") && (g.pIndexLeaf > 0 && g.pLimit >= 50 && r.chance(1, 5) || r.intn(100) < g.pCutoff) {
		return g.cutoffRequest(table)
	}
	lines := []string{"GET " + table}
	cols := qeQueryCols[table]
	isStats := r.intn(100) < g.pStats
	// columns
	ncol := 1 + r.intn(4)
	if isStats {
		ncol = 0
		if r.chance(1, 3) {
			ncol = 1 + r.intn(2)
		}
	}
	chosen := []string{}
	for i := 0; i < ncol; i++ {
		c := vPick(r, cols)
		if isStats {
			// group-by keys: scalar columns only
			switch g.colType(table, c) {
			case StringCol, IntCol, Int64Col:
			default:
				continue
			}
		}
		chosen = append(chosen, c)
	}
	if !isStats && len(chosen) == 0 {
		chosen = append(chosen, cols[0])
	}
	if len(chosen) > 0 {
		lines = append(lines, "Columns: "+strings.Join(chosen, " "))
	}
	if r.intn(100) < g.pFilter {
		n := 1 + r.intn(2)
		for i := 0; i < n; i++ {
			g.filterTree(table, "Filter", r.intn(g.maxDepth+1), &lines)
		}
	}
	if isStats && r.intn(100) < g.pGrouped {
		g.groupedStats(table, &lines)
	} else if isStats {
		n := 1 + r.intn(4)
		for i := 0; i < n; i++ {
			nums := g.numericCols(table)
			if len(nums) > 0 && r.chance(1, 3) {
				lines = append(lines, fmt.Sprintf("Stats: %s %s", vPick(r, []string{"sum", "avg", "min", "max"}), vPick(r, nums)))
				g.count("stats:agg")
			} else {
				g.filterTree(table, "Stats", r.intn(3), &lines)
				g.count("stats:counter")
			}
		}
	} else {
		if r.intn(100) < g.pSort {
			n := 1 + r.intn(3)
			for i := 0; i < n; i++ {
				c := vPick(r, cols)
				if i == 0 && n > 1 && r.chance(1, 4) && (table == "hosts" || table == "services") {
					// a custom variable key that many rows lack, followed by further keys
					c = "custom_variables"
				}
				if g.colType(table, c) == InterfaceListCol || c == "nosuchcolumn" {
					continue
				}
				d := vPick(r, []string{"asc", "desc", "asc"})
				if g.colType(table, c) == CustomVarCol {
					lines = append(lines, fmt.Sprintf("Sort: %s %s %s", c, vPick(r, qeCVNames), d))
				} else {
					lines = append(lines, fmt.Sprintf("Sort: %s %s", c, d))
				}
				g.count("sort")
			}
			if r.chance(1, 4) {
				// the default sort order (per backend cut-off applies)
				lines = qeDropSort(lines)
				switch table {
				case "hosts":
					lines = append(lines, "Sort: name asc")
				case "services":
					lines = append(lines, "Sort: host_name asc", "Sort: description asc")
				}
			}
		}
		if r.intn(100) < g.pLimit {
			if r.chance(3, 4) {
				lines = append(lines, fmt.Sprintf("Limit: %d", vPick(r, []int{0, 1, 2, 3, 5, 100})))
				g.count("limit")
			}
			if r.chance(1, 2) {
				lines = append(lines, fmt.Sprintf("Offset: %d", vPick(r, []int{0, 1, 2, 4, 50})))
				g.count("offset")
			}
		}
	}
	if r.intn(100) < g.pBackends {
		ids := []string{}
		n := r.intn(4)
		for i := 0; i < n; i++ {
			ids = append(ids, vPick(r, []string{"id1", "id2", "id3", "id4", "unknown", "id1"}))
		}
		if len(ids) > 0 {
			lines = append(lines, "Backends: "+strings.Join(ids, " "))
			g.count("backends")
		}
	}
	if r.intn(100) < g.pAuth {
		lines = append(lines, "AuthUser: "+vPick(r, append(append([]string{}, qeContacts...), "nobody")))
		g.count("authuser")
	}
	if r.intn(100) < g.pWrapped {
		lines = append(lines, "OutputFormat: wrapped_json")
		g.count("wrapped_json")
	} else if r.chance(1, 2) {
		lines = append(lines, "OutputFormat: json")
	}
	if r.chance(1, 10) {
		lines = append(lines, "ColumnHeaders: on")
	}

	return strings.Join(lines, "\n") + "\n\n"
}

func qeDropSort(lines []string) []string {
	res := []string{}
	for _, l := range lines {
		if !strings.HasPrefix(l, "Sort:") {
			res = append(res, l)
		}
	}

	return res
}

// groupedStats emits runs of counters whose leading terms coincide, the shapes the
// stats grouping optimiser looks for (Thruk's tactical overview), with the variations
// it must not be fooled by: StatsOr blocks, negated blocks, nested first terms,
// custom variable terms differing in the variable name only, three-term blocks.
func (g *qeGen) groupedStats(table string, lines *[]string) {
	r := g.r
	runs := 1 + r.intn(2)
	for run := 0; run < runs; run++ {
		var first []string
		switch r.intn(6) {
		case 0:
			// a nested group as common first term
			g.filterTree(table, "Stats", 1, &first)
		case 1, 2:
			first = []string{"Stats: custom_variables = " + vPick(r, qeCVNames) + " " + vPick(r, []string{"1", "1", "x", "Berlin"})}
		default:
			first = []string{"Stats: " + g.leaf(table)}
		}
		blocks := 2 + r.intn(4)
		for b := 0; b < blocks; b++ {
			cur := append([]string{}, first...)
			// near variants of the shared first term in later blocks: the optimiser must not take them for the same term
			if len(first) == 1 && ((b == 1 && r.chance(1, 3)) || (b >= 2 && r.chance(1, 2))) {
				parts := strings.SplitN(first[0], " ", 5) // Stats: <col> <op> <rest>
				switch {
				case strings.HasPrefix(first[0], "Stats: custom_variables") && len(parts) == 5:
					// same value, other variable name
					cur = []string{"Stats: custom_variables " + parts[2] + " " + vPick(r, qeCVNames) + " " + parts[4]}
				case len(parts) >= 4:
					// same column and value, other operator
					rest := strings.Join(parts[3:], " ")
					cur = []string{"Stats: " + parts[1] + " " + vPick(r, []string{"=", "!=", ">=", "<", "~", "!~"}) + " " + rest}
				}
				g.count("stats:grouped-near-variant")
			}
			if r.chance(1, 6) {
				cur = []string{"Stats: " + g.leaf(table)} // breaks the run
			}
			n := 1 + r.intn(2)
			for i := 0; i < n; i++ {
				if r.chance(1, 5) {
					g.filterTree(table, "Stats", 1, &cur)
				} else {
					cur = append(cur, "Stats: "+g.leaf(table))
				}
			}
			// number of stack entries pushed by cur
			entries := g.stackEntries(cur)
			op := "StatsAnd"
			if r.chance(1, 5) {
				op = "StatsOr"
			}
			cur = append(cur, fmt.Sprintf("%s: %d", op, entries))
			if r.chance(1, 6) {
				cur = append(cur, "StatsNegate:")
			}
			*lines = append(*lines, cur...)
			g.count("stats:grouped-block:" + op)
		}
		if r.chance(1, 3) {
			nums := g.numericCols(table)
			if len(nums) > 0 {
				*lines = append(*lines, fmt.Sprintf("Stats: %s %s", vPick(r, []string{"sum", "avg", "min", "max"}), vPick(r, nums)))
			}
		}
	}
}

// stackEntries counts how many entries the given Stats lines leave on the stack
func (g *qeGen) stackEntries(lines []string) int {
	n := 0
	for _, l := range lines {
		switch {
		case strings.HasPrefix(l, "StatsAnd: "), strings.HasPrefix(l, "StatsOr: "):
			k := 0
			fmt.Sscanf(strings.SplitN(l, ": ", 2)[1], "%d", &k)
			n = n - k + 1
		case strings.HasPrefix(l, "StatsNegate"):
		default:
			n++
		}
	}

	return n
}
