//go:build verif

package lmd

import (
	"bufio"
	"bytes"
	"context"
	"encoding/json"
	"fmt"
	"math"
	"sort"
	"strings"
)

// qeObs is what the implementation answered, canonicalised.
type qeObs struct {
	kind    string // data | stats | error
	code    int
	rows    []string // Coq terms, one per row
	total   int
	hasTot  bool
	failed  []string
	rawBody string
}

// qeRunQuery sends the request text through NewRequest / NewResponse / Buffer.
func qeRunQuery(lmd *Daemon, text string, optimize bool) (obs *qeObs) {
	obs = &qeObs{}
	defer func() {
		if r := recover(); r != nil {
			obs.kind = "error"
			obs.code = 999
			obs.rawBody = fmt.Sprintf("panic: %v", r)
		}
	}()
	mode := ParseDefault
	if optimize {
		mode = ParseOptimize
	}
	ctx := context.Background()
	req, _, err := NewRequest(ctx, lmd, bufio.NewReader(strings.NewReader(text)), mode)
	if err != nil || req == nil {
		obs.kind = "error"
		obs.code = 400
		if err != nil {
			obs.rawBody = err.Error()
		}

		return obs
	}
	if err = req.ExpandRequestedBackends(); err != nil {
		obs.kind = "error"
		obs.code = 400

		return obs
	}
	res, _, err := NewResponse(ctx, req, nil)
	if err != nil {
		obs.kind = "error"
		obs.code = 500
		if res != nil && res.code != 200 {
			obs.code = res.code
		}
		obs.rawBody = err.Error()

		return obs
	}
	buf, err := res.Buffer()
	if err != nil {
		obs.kind = "error"
		obs.code = 500

		return obs
	}
	obs.rawBody = buf.String()
	qeParseBody(req, res, buf.Bytes(), obs)

	return obs
}

// qeCell converts one decoded JSON cell into a Coq value term according to the column type.
func qeCell(dt DataType, raw json.RawMessage) string {
	switch dt {
	case StringCol, StringLargeCol:
		var s string
		if json.Unmarshal(raw, &s) == nil {
			return "VStr " + coqStr(s)
		}
	case IntCol, Int64Col:
		var n json.Number
		if json.Unmarshal(raw, &n) == nil {
			if i, err := n.Int64(); err == nil {
				return "VInt " + coqZ(i)
			}
			f, _ := n.Float64()

			return "VFloat " + coqZ(int64(math.Round(f*1000)))
		}
	case FloatCol:
		var f float64
		if json.Unmarshal(raw, &f) == nil {
			return "VFloat " + coqZ(int64(math.Round(f*1000)))
		}
	case StringListCol:
		var l []string
		if json.Unmarshal(raw, &l) == nil {
			return "VStrList " + coqStrList(l)
		}
	case Int64ListCol:
		var l []int64
		if json.Unmarshal(raw, &l) == nil {
			parts := []string{}
			for _, x := range l {
				parts = append(parts, coqZ(x)+"%Z")
			}

			return "VIntList " + coqList(parts)
		}
	case ServiceMemberListCol:
		var l [][]string
		if json.Unmarshal(raw, &l) == nil {
			parts := []string{}
			for _, p := range l {
				if len(p) == 2 {
					parts = append(parts, fmt.Sprintf("(%s, %s)", coqStr(p[0]), coqStr(p[1])))
				}
			}

			return "VPairs " + coqList(parts)
		}
	case CustomVarCol, JSONCol:
		// keep the order and duplicates of the object's members
		dec := json.NewDecoder(bytes.NewReader(raw))
		tok, err := dec.Token()
		if err == nil && tok == json.Delim('{') {
			parts := []string{}
			for dec.More() {
				k, _ := dec.Token()
				var v interface{}
				_ = dec.Decode(&v)
				vs := ""
				if v != nil {
					vs = fmt.Sprintf("%v", v)
				}
				parts = append(parts, fmt.Sprintf("(%s, %s)", coqStr(fmt.Sprintf("%v", k)), coqStr(vs)))
			}

			return "VPairs " + coqList(parts)
		}
	case InterfaceListCol:
		var l []interface{}
		if json.Unmarshal(raw, &l) == nil {
			rows := []string{}
			for _, e := range l {
				sub, ok := e.([]interface{})
				if !ok {
					sub = []interface{}{e}
				}
				cells := []string{}
				for _, c := range sub {
					cells = append(cells, fmt.Sprintf("%v", c))
				}
				rows = append(rows, coqStrList(cells))
			}

			return "VRows " + coqList(rows)
		}
	}

	return "VStr " + coqStr("?unparsed:"+string(raw))
}

func qeParseBody(req *Request, res *Response, body []byte, obs *qeObs) {
	var rows []json.RawMessage
	if req.OutputFormat == OutputFormatWrappedJSON {
		var wrapped struct {
			Data       []json.RawMessage `json:"data"`
			Failed     map[string]string `json:"failed"`
			TotalCount int               `json:"total_count"`
		}
		if err := json.Unmarshal(body, &wrapped); err != nil {
			obs.kind = "error"
			obs.code = 998
			obs.rawBody = "invalid json: " + err.Error() + ": " + string(body)

			return
		}
		rows = wrapped.Data
		obs.total = wrapped.TotalCount
		obs.hasTot = true
		for k := range wrapped.Failed {
			obs.failed = append(obs.failed, k)
		}
		sort.Strings(obs.failed)
	} else {
		if err := json.Unmarshal(body, &rows); err != nil {
			obs.kind = "error"
			obs.code = 998
			obs.rawBody = "invalid json: " + err.Error() + ": " + string(body)

			return
		}
		if res.SendColumnsHeader() && len(rows) > 0 {
			rows = rows[1:]
		}
	}
	nStats := len(req.Stats)
	if nStats > 0 {
		obs.kind = "stats"
		nKey := len(req.Columns)
		for _, raw := range rows {
			var cells []json.RawMessage
			if json.Unmarshal(raw, &cells) != nil {
				continue
			}
			keys := []string{}
			vals := []string{}
			for i, c := range cells {
				if i < nKey {
					var s string
					if json.Unmarshal(c, &s) != nil {
						s = string(c)
					}
					keys = append(keys, s)
				} else {
					var f float64
					_ = json.Unmarshal(c, &f)
					vals = append(vals, coqZ(int64(math.Round(f*1e6)))+"%Z")
				}
			}
			obs.rows = append(obs.rows, fmt.Sprintf("(%s, %s)", coqStrList(keys), coqList(vals)))
		}

		return
	}
	obs.kind = "data"
	for _, raw := range rows {
		var cells []json.RawMessage
		if json.Unmarshal(raw, &cells) != nil {
			continue
		}
		parts := []string{}
		for i, c := range cells {
			dt := StringCol
			if i < len(req.RequestColumns) {
				dt = req.RequestColumns[i].DataType
			}
			parts = append(parts, qeCell(dt, c))
		}
		obs.rows = append(obs.rows, coqList(parts))
	}
}

func (o *qeObs) coq() string {
	switch o.kind {
	case "data":
		tot := "None"
		if o.hasTot {
			tot = fmt.Sprintf("(Some %d%%nat)", o.total)
		}

		return fmt.Sprintf("OData [%s] %s %s", strings.Join(o.rows, ";\n    "), tot, coqStrList(o.failed))
	case "stats":
		return fmt.Sprintf("OStats [%s] %s", strings.Join(o.rows, ";\n    "), coqStrList(o.failed))
	}

	return fmt.Sprintf("OError %d", o.code)
}
