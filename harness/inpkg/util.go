//go:build verif

package lmd

import (
	"encoding/json"
	"fmt"
	"os"
	"sort"
	"strings"
	"unicode/utf8"
)

// vRand is a splitmix64 generator; every random choice of the harness derives from it.
type vRand struct{ s uint64 }

func newVRand(seed uint64) *vRand {
	// scramble the seed so that neighbouring seeds give unrelated streams
	z := (seed + 0x1234567) * 0xBF58476D1CE4E5B9
	z = (z ^ (z >> 29)) * 0x94D049BB133111EB
	z ^= z >> 32

	return &vRand{s: z}
}

func (r *vRand) next() uint64 {
	r.s += 0x9E3779B97F4A7C15
	z := r.s
	z = (z ^ (z >> 30)) * 0xBF58476D1CE4E5B9
	z = (z ^ (z >> 27)) * 0x94D049BB133111EB

	return z ^ (z >> 31)
}

// intn returns a number in [0,n).
func (r *vRand) intn(n int) int {
	if n <= 0 {
		return 0
	}

	return int(r.next() % uint64(n))
}

func (r *vRand) chance(num, den int) bool { return r.intn(den) < num }

func (r *vRand) fork() *vRand { return &vRand{s: r.next()} }

func vPick[T any](r *vRand, l []T) T { return l[r.intn(len(l))] }

// ---- Coq term emission ------------------------------------------------------

// coqStr renders a Go string as a [str] (list of code points, invalid byte b as 0x110000+b).
func coqStr(s string) string {
	if s == "" {
		return "[]"
	}
	plain := true
	for i := 0; i < len(s); i++ {
		if s[i] < 0x20 || s[i] > 0x7e || s[i] == '"' {
			plain = false

			break
		}
	}
	if plain {
		return `(s "` + s + `")`
	}
	parts := make([]string, 0, len(s))
	for i := 0; i < len(s); {
		r, size := utf8.DecodeRuneInString(s[i:])
		if r == utf8.RuneError && size <= 1 {
			parts = append(parts, fmt.Sprintf("%d", 0x110000+int(s[i])))
			i++

			continue
		}
		parts = append(parts, fmt.Sprintf("%d", r))
		i += size
	}

	return "[" + strings.Join(parts, ";") + "]"
}

func coqStrList(l []string) string {
	parts := make([]string, 0, len(l))
	for _, s := range l {
		parts = append(parts, coqStr(s))
	}

	return "[" + strings.Join(parts, ";") + "]"
}

func coqBool(b bool) string {
	if b {
		return "true"
	}

	return "false"
}

func coqBoolList(l []bool) string {
	parts := make([]string, 0, len(l))
	for _, b := range l {
		parts = append(parts, coqBool(b))
	}

	return "[" + strings.Join(parts, ";") + "]"
}

func coqList(parts []string) string { return "[" + strings.Join(parts, ";") + "]" }

// coqZ renders an integer for Z_scope.
func coqZ(v int64) string {
	if v < 0 {
		return fmt.Sprintf("(%d)", v)
	}

	return fmt.Sprintf("%d", v)
}

func sortedCopy(l []string) []string {
	c := append([]string{}, l...)
	sort.Strings(c)

	return c
}

// vMeta collects statistics on generated cases for the evidence file.
type vMeta struct {
	Stream     string         `json:"stream"`
	Cases      int            `json:"cases"`
	Nontrivial int            `json:"distinct_nontrivial"`
	Rule       string         `json:"rule"`
	Exhaustive bool           `json:"exhaustive"`
	Histogram  map[string]int `json:"histogram"`
	Samples    []interface{}  `json:"samples"`
	Inputs     []interface{}  `json:"inputs,omitempty"` // replayable inputs, index = case index
	seen       map[string]bool
}

func newVMeta(stream, rule string) *vMeta {
	return &vMeta{Stream: stream, Rule: rule, Histogram: map[string]int{}, seen: map[string]bool{}}
}

func (m *vMeta) count(key string) { m.Histogram[key]++ }

// add registers a case; key identifies it for distinctness.
func (m *vMeta) add(key string, nontrivial bool, input interface{}) {
	m.Cases++
	if nontrivial && !m.seen[key] {
		m.Nontrivial++
	}
	m.seen[key] = true
	if len(m.Samples) < 5 {
		m.Samples = append(m.Samples, input)
	}
	m.Inputs = append(m.Inputs, input)
}

func (m *vMeta) write(path string) {
	buf, err := json.MarshalIndent(m, "", " ")
	if err != nil {
		panic(err)
	}
	if err := os.WriteFile(path, buf, 0o644); err != nil {
		panic(err)
	}
}

// vReadReplay reads a replay file: {"property":..,"stream":..,"inputs":[...]}.
func vReadReplay(path string, into interface{}) {
	buf, err := os.ReadFile(path)
	if err != nil {
		panic(err)
	}
	var wrapper struct {
		Inputs json.RawMessage `json:"inputs"`
	}
	if err := json.Unmarshal(buf, &wrapper); err != nil {
		panic(err)
	}
	if err := json.Unmarshal(wrapper.Inputs, into); err != nil {
		panic(err)
	}
}
