//go:build verif

package lmd

// vbackend.go - a scripted Livestatus backend shared by the correspondence
// streams (C02/C03/C11/C12/C13/C15 ...).
//
// It listens on a unix socket, answers the `GET <table>` queries lmd itself
// sends to a Naemon core from a mutable in-memory dataset, records COMMAND
// lines and can be switched into several failure modes. Request text is parsed
// with lmd's own NewRequest(..., ParseDefault) (so header syntax is exactly what
// lmd emits) but evaluated by the small independent evaluator below
// (vEval*/vMatch*) directly over []interface{} rows - never through lmd's
// DataStore/Filter.Match code.
//
// API (all methods are safe for concurrent use):
//
//	b := newVBackend("a")            listen on /verif/work/sock/<pid>-a.sock (VERIF_SOCKDIR overrides the dir)
//	b.Addr()                         socket path, use as Connection.Source entry
//	b.Close()                        stop listening, close all connections, remove the socket
//
//	dataset (b.tables, guarded by b.mu; use the helpers or b.WithLock(func(){...})):
//	b.SetTable(name, cols, rows)     replace a table; rows hold string, float64/int64/int, []interface{}
//	b.SetDataset(map[string]*vTable) replace everything (see vDefaultDataset)
//	b.Table(name)                    the *vTable (nil if missing); only touch under WithLock
//	b.SetCell(table, key, col, v)    set column col of the row whose primary key equals key
//	                                 (key = []string{name} / {host_name, description} / {id as text}); adds the column if missing
//	b.AddRow(table, map[col]value)   append a row (missing columns get the zero value of lmd's column type)
//	b.RemoveRow(table, key)          delete the row with that primary key; returns whether it existed
//	b.Cell(table, key, col)          read a cell (nil if not present)
//
//	queries:
//	b.QueryLog()                     copy of the raw text of every GET request received (b.Queries)
//	b.QueryCount()                   len(b.Queries)
//	b.ResetLogs()                    clear Queries and CommandLog
//
//	commands (a block starting with `COMMAND `):
//	b.Commands()                     copy of b.CommandLog: {Conn, Batch, Cmd}; Conn numbers connections
//	                                 from 1 in accept order, Batch increases whenever a command block had to be
//	                                 waited for (commands arriving in one write share a batch), Cmd is the raw line
//	                                 (bytes as received, without the line end)
//	b.SetCommandMode(m, msg)         vCmdAccept: log, no reply, close (what Naemon does)
//	                                 vCmdReject: log, reply "<msg>\n" (e.g. "400: bad command"), close
//	                                 vCmdDrop:   discard without logging, no reply, close
//	b.FailNextCommands(k, m, msg)    the next k command connections behave like m, then back to the set mode
//	b.OnCommandConn = func(){...}    optional hook, called after a command connection was handled, before it is closed
//	b.CloseConns()                   close all open connections (keeps listening): lmd's pooled connections go stale
//
//	faults for GET requests:
//	b.SetMode(vModeOK|vModeRefuse|vModeGarbage|vModeTruncate)
//	    refuse   : listener closed, socket file removed, open connections closed (connect fails)
//	    garbage  : every GET is answered with bytes that are no Livestatus answer, then close
//	    truncate : correct fixed16 header, only half of the body, then close
//	b.FailAfter(n, mode)             answer n more GETs normally, then behave as SetMode(mode)
//
// Answers: `Columns:` projection (no Columns = all dataset columns), `Filter:` with
// = != =~ !=~ ~ !~ ~~ !~~ < <= > >= on numbers/strings, >= / !>= / = "" on lists, `And/Or/Negate`,
// `Stats:` counters and sum/min/max/avg (without group-by columns), `Limit`, `OutputFormat: json|wrapped_json`,
// `ResponseHeader: fixed16`, `KeepAlive: on`, `ColumnHeaders: on`. A table that is not in the dataset is
// answered like Livestatus does: `404 <len>\nTable 'x' does not exist.`; table `columns` lists the
// (table,name) pairs of the dataset. A requested column the dataset does not store yields the zero
// value of lmd's own column type (Objects.Tables[t].GetColumn(c).DataType).

import (
	"bufio"
	"bytes"
	"context"
	"encoding/json"
	"fmt"
	"io"
	"net"
	"os"
	"path/filepath"
	"strconv"
	"strings"
	"sync"
	"time"
)

type vMode int

const (
	vModeOK vMode = iota
	vModeRefuse
	vModeGarbage
	vModeTruncate
)

type vCmdMode int

const (
	vCmdAccept vCmdMode = iota
	vCmdReject
	vCmdDrop
)

// vTable is one table of the scripted dataset.
type vTable struct {
	Cols []string
	Rows [][]interface{}
}

func (t *vTable) colIndex(name string) int {
	for i, c := range t.Cols {
		if c == name {
			return i
		}
	}

	return -1
}

// vCmdEntry is one received COMMAND line.
type vCmdEntry struct {
	Conn  int    `json:"conn"`
	Batch int    `json:"batch"`
	Cmd   string `json:"cmd"`
}

type vBackend struct {
	name     string
	addr     string
	daemon   *Daemon // only used to parse request text
	mu       sync.Mutex
	tables   map[string]*vTable
	listener net.Listener
	conns    map[net.Conn]bool
	closed   bool
	connNo   int
	batchNo  int

	Queries    []string
	CommandLog []vCmdEntry

	mode          vMode
	failAfter     int // <0: disabled
	failAfterMode vMode
	cmdMode       vCmdMode
	cmdMsg        string
	cmdFailNext   int
	cmdFailMode   vCmdMode
	cmdFailMsg    string
	wg            sync.WaitGroup

	// OnCommandConn, if set, is called (without b.mu held) when a connection that carried
	// commands has been handled completely (logged and answered), right before it is closed.
	OnCommandConn func()
}

func vSockDir() string {
	dir := verifEnv("VERIF_SOCKDIR", "/verif/work/sock")
	if err := os.MkdirAll(dir, 0o755); err != nil {
		panic(err)
	}

	return dir
}

// vDeadSocket returns a socket path nobody listens on.
func vDeadSocket(name string) string {
	path := filepath.Join(vSockDir(), fmt.Sprintf("%d-%s.dead", os.Getpid(), name))
	os.Remove(path)

	return path
}

func newVBackend(name string) *vBackend {
	backend := &vBackend{
		name:      name,
		addr:      filepath.Join(vSockDir(), fmt.Sprintf("%d-%s.sock", os.Getpid(), name)),
		daemon:    verifNewDaemon(),
		tables:    map[string]*vTable{},
		conns:     map[net.Conn]bool{},
		failAfter: -1,
	}
	if len(backend.addr) > 100 {
		panic("vbackend: socket path too long: " + backend.addr)
	}
	backend.mu.Lock()
	backend.listen()
	backend.mu.Unlock()

	return backend
}

func (b *vBackend) Addr() string { return b.addr }

// listen (re)opens the listener; caller holds b.mu.
func (b *vBackend) listen() {
	if b.listener != nil || b.closed {
		return
	}
	os.Remove(b.addr)
	listener, err := net.Listen("unix", b.addr)
	if err != nil {
		panic("vbackend listen: " + err.Error())
	}
	b.listener = listener
	b.wg.Add(1)
	go b.acceptLoop(listener)
}

// unlisten closes listener and all open connections; caller holds b.mu.
func (b *vBackend) unlisten() {
	if b.listener != nil {
		b.listener.Close()
		b.listener = nil
		os.Remove(b.addr)
	}
	for c := range b.conns {
		c.Close()
	}
	b.conns = map[net.Conn]bool{}
}

func (b *vBackend) Close() {
	b.mu.Lock()
	b.closed = true
	b.unlisten()
	b.mu.Unlock()
	b.wg.Wait()
}

// CloseConns closes all open connections but keeps listening.
func (b *vBackend) CloseConns() {
	b.mu.Lock()
	defer b.mu.Unlock()
	for c := range b.conns {
		c.Close()
	}
	b.conns = map[net.Conn]bool{}
}

func (b *vBackend) acceptLoop(listener net.Listener) {
	defer b.wg.Done()
	for {
		conn, err := listener.Accept()
		if err != nil {
			return
		}
		b.mu.Lock()
		if b.listener != listener {
			// refused in the meantime
			b.mu.Unlock()
			conn.Close()

			continue
		}
		b.connNo++
		num := b.connNo
		b.conns[conn] = true
		b.wg.Add(1)
		b.mu.Unlock()
		go func() {
			defer b.wg.Done()
			b.serve(conn, num)
			conn.Close()
			b.mu.Lock()
			delete(b.conns, conn)
			b.mu.Unlock()
		}()
	}
}

// ---- scripting -----------------------------------------------------------------

func (b *vBackend) WithLock(fn func()) {
	b.mu.Lock()
	defer b.mu.Unlock()
	fn()
}

func (b *vBackend) SetMode(mode vMode) {
	b.mu.Lock()
	defer b.mu.Unlock()
	b.setMode(mode)
}

func (b *vBackend) setMode(mode vMode) {
	b.mode = mode
	b.failAfter = -1
	if mode == vModeRefuse {
		b.unlisten()
	} else {
		b.listen()
	}
}

func (b *vBackend) FailAfter(n int, mode vMode) {
	b.mu.Lock()
	defer b.mu.Unlock()
	if n <= 0 {
		b.setMode(mode)

		return
	}
	b.failAfter = n
	b.failAfterMode = mode
}

func (b *vBackend) SetCommandMode(mode vCmdMode, msg string) {
	b.mu.Lock()
	defer b.mu.Unlock()
	b.cmdMode = mode
	b.cmdMsg = msg
}

func (b *vBackend) FailNextCommands(k int, mode vCmdMode, msg string) {
	b.mu.Lock()
	defer b.mu.Unlock()
	b.cmdFailNext = k
	b.cmdFailMode = mode
	b.cmdFailMsg = msg
}

func (b *vBackend) QueryLog() []string {
	b.mu.Lock()
	defer b.mu.Unlock()

	return append([]string{}, b.Queries...)
}

func (b *vBackend) QueryCount() int {
	b.mu.Lock()
	defer b.mu.Unlock()

	return len(b.Queries)
}

func (b *vBackend) Commands() []vCmdEntry {
	b.mu.Lock()
	defer b.mu.Unlock()

	return append([]vCmdEntry{}, b.CommandLog...)
}

func (b *vBackend) ResetLogs() {
	b.mu.Lock()
	defer b.mu.Unlock()
	b.Queries = nil
	b.CommandLog = nil
}

// ---- dataset -------------------------------------------------------------------

func (b *vBackend) SetDataset(tables map[string]*vTable) {
	b.mu.Lock()
	defer b.mu.Unlock()
	b.tables = tables
}

func (b *vBackend) SetTable(name string, cols []string, rows [][]interface{}) {
	b.mu.Lock()
	defer b.mu.Unlock()
	b.tables[name] = &vTable{Cols: cols, Rows: rows}
}

func (b *vBackend) Table(name string) *vTable { return b.tables[name] }

func vPrimaryKey(table string) []string {
	tableName, err := NewTableName(table)
	if err != nil {
		return nil
	}
	if t, ok := Objects.Tables[tableName]; ok {
		return t.primaryKey
	}

	return nil
}

func vKeyText(val interface{}) string {
	switch v := val.(type) {
	case string:
		return v
	case float64:
		return strconv.FormatFloat(v, 'f', -1, 64)
	default:
		return fmt.Sprintf("%v", v)
	}
}

// findRow returns the index of the row with the given primary key; caller holds b.mu.
func (b *vBackend) findRow(table string, key []string) (*vTable, int) {
	tab := b.tables[table]
	if tab == nil {
		return nil, -1
	}
	pk := vPrimaryKey(table)
	if len(pk) == 0 || len(pk) != len(key) {
		return tab, -1
	}
	idx := make([]int, len(pk))
	for i, k := range pk {
		idx[i] = tab.colIndex(k)
		if idx[i] < 0 {
			return tab, -1
		}
	}
	for r, row := range tab.Rows {
		match := true
		for i := range pk {
			if vKeyText(row[idx[i]]) != key[i] {
				match = false

				break
			}
		}
		if match {
			return tab, r
		}
	}

	return tab, -1
}

// ensureCol adds a column (filled with the type's zero value); caller holds b.mu.
func (b *vBackend) ensureCol(table string, tab *vTable, col string) int {
	idx := tab.colIndex(col)
	if idx >= 0 {
		return idx
	}
	tab.Cols = append(tab.Cols, col)
	for i := range tab.Rows {
		tab.Rows[i] = append(tab.Rows[i], vZeroValue(table, col))
	}

	return len(tab.Cols) - 1
}

func (b *vBackend) SetCell(table string, key []string, col string, val interface{}) bool {
	b.mu.Lock()
	defer b.mu.Unlock()
	tab, r := b.findRow(table, key)
	if r < 0 {
		return false
	}
	tab.Rows[r][b.ensureCol(table, tab, col)] = val

	return true
}

func (b *vBackend) Cell(table string, key []string, col string) interface{} {
	b.mu.Lock()
	defer b.mu.Unlock()
	tab, r := b.findRow(table, key)
	if r < 0 {
		return nil
	}
	idx := tab.colIndex(col)
	if idx < 0 {
		return nil
	}

	return tab.Rows[r][idx]
}

func (b *vBackend) AddRow(table string, vals map[string]interface{}) {
	b.mu.Lock()
	defer b.mu.Unlock()
	tab := b.tables[table]
	if tab == nil {
		tab = &vTable{}
		b.tables[table] = tab
	}
	for col := range vals {
		b.ensureCol(table, tab, col)
	}
	row := make([]interface{}, len(tab.Cols))
	for i, col := range tab.Cols {
		if v, ok := vals[col]; ok {
			row[i] = v
		} else {
			row[i] = vZeroValue(table, col)
		}
	}
	tab.Rows = append(tab.Rows, row)
}

func (b *vBackend) RemoveRow(table string, key []string) bool {
	b.mu.Lock()
	defer b.mu.Unlock()
	tab, r := b.findRow(table, key)
	if r < 0 {
		return false
	}
	tab.Rows = append(tab.Rows[:r:r], tab.Rows[r+1:]...)

	return true
}

// vZeroValue is the type-appropriate empty value for a column the dataset does not store.
func vZeroValue(table, col string) interface{} {
	tableName, err := NewTableName(table)
	if err != nil {
		return ""
	}
	tab, ok := Objects.Tables[tableName]
	if !ok {
		return ""
	}
	column := tab.GetColumn(col)
	if column == nil {
		return ""
	}
	switch column.DataType {
	case IntCol, Int64Col, FloatCol:
		return float64(0)
	case StringListCol, Int64ListCol, ServiceMemberListCol, InterfaceListCol, CustomVarCol:
		return []interface{}{}
	default:
		return ""
	}
}

// ---- connection handling ---------------------------------------------------------

// readBlock reads one request: lines up to an empty line (or EOF). Leading empty lines are skipped.
func vReadBlock(rd *bufio.Reader) (block []byte, waited bool, err error) {
	for {
		if rd.Buffered() == 0 && len(block) == 0 {
			waited = true
		}
		line, rerr := rd.ReadBytes('\n')
		if len(bytes.TrimRight(line, "\r\n")) == 0 && len(line) > 0 {
			if len(block) == 0 {
				if rerr != nil {
					return nil, waited, rerr
				}

				continue // leading blank line
			}

			return block, waited, nil
		}
		block = append(block, line...)
		if rerr != nil {
			if len(block) > 0 {
				return block, waited, nil
			}

			return nil, waited, rerr
		}
	}
}

func (b *vBackend) serve(conn net.Conn, connNo int) {
	var src io.Reader = conn
	b.mu.Lock()
	dropArmed := b.cmdMode == vCmdDrop || (b.cmdFailNext > 0 && b.cmdFailMode == vCmdDrop)
	b.mu.Unlock()
	if dropArmed {
		// a backend that takes a command connection and hangs up without reading it: only the first bytes are taken
		// from the socket, so the rest of the batch is still unread when the connection is closed and the peer sees
		// a connection reset instead of a plain end of file
		peek := make([]byte, 8)
		n, _ := conn.Read(peek)
		if n == 8 && string(peek) == "COMMAND " {
			b.mu.Lock()
			if b.cmdMode != vCmdDrop && b.cmdFailNext > 0 {
				b.cmdFailNext--
			}
			hook := b.OnCommandConn
			b.mu.Unlock()
			time.Sleep(30 * time.Millisecond)
			if hook != nil {
				hook()
			}

			return
		}
		src = io.MultiReader(bytes.NewReader(peek[:n]), conn)
	}
	rd := bufio.NewReaderSize(src, 1<<16)
	isCmdConn := false
	var cmdMode vCmdMode
	var cmdMsg string
	for {
		block, waited, err := vReadBlock(rd)
		if err != nil || len(block) == 0 {
			break
		}
		if bytes.HasPrefix(block, []byte("COMMAND ")) {
			b.mu.Lock()
			if !isCmdConn {
				isCmdConn = true
				cmdMode, cmdMsg = b.cmdMode, b.cmdMsg
				if b.cmdFailNext > 0 {
					b.cmdFailNext--
					cmdMode, cmdMsg = b.cmdFailMode, b.cmdFailMsg
				}
			}
			if cmdMode != vCmdDrop {
				if waited {
					b.batchNo++
				}
				// every line of the block is one command (lmd sends one per block)
				for _, line := range bytes.Split(bytes.TrimRight(block, "\n"), []byte("\n")) {
					if bytes.HasPrefix(line, []byte("COMMAND ")) {
						b.CommandLog = append(b.CommandLog, vCmdEntry{Conn: connNo, Batch: b.batchNo, Cmd: string(line)})
					}
				}
			}
			b.mu.Unlock()
			if cmdMode == vCmdDrop {
				// close while lmd already waits for the answer (the rest of the batch stays unread: the peer sees a
				// connection reset, not a plain end of file)
				time.Sleep(30 * time.Millisecond)

				break
			}

			continue
		}
		if isCmdConn {
			break
		}
		if !b.answer(conn, block) {
			return
		}
	}
	if isCmdConn && cmdMode == vCmdReject {
		fmt.Fprintf(conn, "%s\n", cmdMsg)
	}
	if isCmdConn {
		b.mu.Lock()
		hook := b.OnCommandConn
		b.mu.Unlock()
		if hook != nil {
			hook()
		}
	}
}

// answer handles one GET block, returns false if the connection must be closed.
func (b *vBackend) answer(conn net.Conn, block []byte) bool {
	b.mu.Lock()
	b.Queries = append(b.Queries, string(block))
	mode := b.mode
	switchTo := vMode(-1)
	if b.failAfter == 0 {
		mode = b.failAfterMode
		b.setMode(mode)
	} else if b.failAfter > 0 {
		b.failAfter--
		if b.failAfter == 0 && b.failAfterMode == vModeRefuse {
			// the n-th query is still answered, refuse afterwards
			switchTo = vModeRefuse
		}
	}
	var reply []byte
	keepAlive := false
	switch mode {
	case vModeOK, vModeTruncate:
		reply, keepAlive = b.evalBlock(block)
		if mode == vModeTruncate {
			cut := 16 + (len(reply)-16)/2
			if cut > len(reply) || cut < 0 {
				cut = len(reply) / 2
			}
			reply = reply[:cut]
			keepAlive = false
		}
	case vModeGarbage:
		reply = []byte("vbackend: this is not a livestatus reply at all\n")
	case vModeRefuse:
		b.mu.Unlock()

		return false
	}
	b.mu.Unlock()
	_, err := conn.Write(reply)
	if switchTo == vModeRefuse {
		b.SetMode(vModeRefuse)

		return false
	}

	return err == nil && keepAlive
}

func vFrame(req *Request, code int, body []byte) []byte {
	if req == nil || req.ResponseFixed16 {
		return append([]byte(fmt.Sprintf("%03d %11d\n", code, len(body))), body...)
	}

	return body
}

// evalBlock parses and evaluates one GET request; caller holds b.mu.
func (b *vBackend) evalBlock(block []byte) (reply []byte, keepAlive bool) {
	text := append(append([]byte{}, bytes.TrimRight(block, "\n")...), '\n', '\n')
	firstLine := strings.TrimSpace(strings.SplitN(string(text), "\n", 2)[0])
	fixed16 := &Request{ResponseFixed16: bytes.Contains(block, []byte("ResponseHeader: fixed16"))}
	tableText := strings.TrimSpace(strings.TrimPrefix(firstLine, "GET"))
	req, _, err := NewRequest(context.Background(), b.daemon, bufio.NewReader(bytes.NewReader(text)), ParseDefault)
	if err != nil || req == nil {
		if strings.HasPrefix(firstLine, "GET ") && b.tables[tableText] == nil && tableText != "columns" {
			return vFrame(fixed16, 404, []byte(fmt.Sprintf("Table '%s' does not exist.\n", tableText))), false
		}
		msg := "bad request"
		if err != nil {
			msg = err.Error()
		}

		return vFrame(fixed16, 400, []byte(msg+"\n")), false
	}
	tableName := req.Table.String()
	tab := b.tables[tableName]
	if tableName == "columns" && tab == nil {
		tab = b.columnsTable()
	}
	if tab == nil {
		return vFrame(req, 404, []byte(fmt.Sprintf("Table '%s' does not exist.\n", tableName))), false
	}

	getter := func(row []interface{}, col string) interface{} {
		if idx := tab.colIndex(col); idx >= 0 {
			return row[idx]
		}
		if col == "custom_variables" {
			return vCustomVars(tab, row)
		}

		return vZeroValue(tableName, col)
	}

	// filter
	rows := make([][]interface{}, 0, len(tab.Rows))
	for _, row := range tab.Rows {
		ok := true
		for _, f := range req.Filter {
			if !vMatch(f, row, getter) {
				ok = false

				break
			}
		}
		if ok {
			rows = append(rows, row)
		}
	}

	var out [][]interface{}
	switch {
	case len(req.Stats) > 0:
		res := make([]interface{}, 0, len(req.Stats))
		for _, st := range req.Stats {
			res = append(res, vStats(st, rows, getter))
		}
		out = [][]interface{}{res}
	default:
		cols := req.Columns
		if len(cols) == 0 {
			cols = tab.Cols
		}
		if req.ColumnsHeaders {
			hdr := make([]interface{}, len(cols))
			for i, c := range cols {
				hdr[i] = c
			}
			out = append(out, hdr)
		}
		for _, row := range rows {
			if req.Limit != nil && *req.Limit >= 0 && len(out) >= *req.Limit {
				break
			}
			res := make([]interface{}, len(cols))
			for i, c := range cols {
				res[i] = getter(row, c)
			}
			out = append(out, res)
		}
	}
	if out == nil {
		out = [][]interface{}{}
	}

	var body []byte
	if req.OutputFormat == OutputFormatWrappedJSON {
		body, err = json.Marshal(map[string]interface{}{"data": out, "total_count": len(rows)})
	} else {
		body, err = json.Marshal(out)
	}
	if err != nil {
		return vFrame(req, 500, []byte(err.Error()+"\n")), false
	}
	body = append(body, '\n')

	return vFrame(req, 200, body), req.KeepAlive
}

// columnsTable lists the (table, name) pairs of the dataset; caller holds b.mu.
func (b *vBackend) columnsTable() *vTable {
	tab := &vTable{Cols: []string{"table", "name"}}
	names := make([]string, 0, len(b.tables))
	for name := range b.tables {
		names = append(names, name)
	}
	for _, name := range sortedCopy(names) {
		for _, col := range b.tables[name].Cols {
			tab.Rows = append(tab.Rows, []interface{}{name, col})
		}
	}

	return tab
}

func vCustomVars(tab *vTable, row []interface{}) interface{} {
	res := map[string]interface{}{}
	ni, vi := tab.colIndex("custom_variable_names"), tab.colIndex("custom_variable_values")
	if ni < 0 || vi < 0 {
		return res
	}
	names, _ := row[ni].([]interface{})
	vals, _ := row[vi].([]interface{})
	for i, n := range names {
		if i < len(vals) {
			res[vKeyText(n)] = vals[i]
		}
	}

	return res
}

// ---- the independent evaluator -------------------------------------------------------

type vGetter func(row []interface{}, col string) interface{}

func vToFloat(val interface{}) float64 {
	switch v := val.(type) {
	case float64:
		return v
	case float32:
		return float64(v)
	case int:
		return float64(v)
	case int64:
		return float64(v)
	case int32:
		return float64(v)
	case int8:
		return float64(v)
	case bool:
		if v {
			return 1
		}

		return 0
	case string:
		f, _ := strconv.ParseFloat(v, 64)

		return f
	default:
		return 0
	}
}

func vMatch(f *Filter, row []interface{}, get vGetter) bool {
	res := vMatchPlain(f, row, get)
	if f.negate {
		return !res
	}

	return res
}

func vMatchPlain(f *Filter, row []interface{}, get vGetter) bool {
	if f.column == nil || len(f.filter) > 0 {
		switch f.groupOperator {
		case Or:
			for _, sub := range f.filter {
				if vMatch(sub, row, get) {
					return true
				}
			}

			return false
		default:
			for _, sub := range f.filter {
				if !vMatch(sub, row, get) {
					return false
				}
			}

			return true
		}
	}
	val := get(row, f.column.Name)
	switch v := val.(type) {
	case []interface{}:
		return vMatchList(f, v)
	case map[string]interface{}:
		cur, ok := v[f.customTag]
		if !ok {
			cur = ""
		}

		return vMatchString(f, vKeyText(cur))
	case string:
		switch f.column.DataType {
		case IntCol, Int64Col, FloatCol:
			return vMatchNumber(f, vToFloat(v))
		default:
			return vMatchString(f, v)
		}
	default:
		switch f.column.DataType {
		case IntCol, Int64Col, FloatCol, Int64ListCol:
			return vMatchNumber(f, vToFloat(val))
		default:
			return vMatchString(f, vKeyText(val))
		}
	}
}

func vMatchNumber(f *Filter, val float64) bool {
	ref := f.floatValue
	switch f.operator {
	case Equal, EqualNocase:
		return val == ref
	case Unequal, UnequalNocase:
		return val != ref
	case Less:
		return val < ref
	case LessThan:
		return val <= ref
	case Greater:
		return val > ref
	case GreaterThan:
		return val >= ref
	default:
		return vMatchString(f, strconv.FormatFloat(val, 'f', -1, 64))
	}
}

func vMatchString(f *Filter, val string) bool {
	ref := f.stringVal
	switch f.operator {
	case Equal:
		return val == ref
	case Unequal:
		return val != ref
	case EqualNocase:
		return strings.EqualFold(val, ref)
	case UnequalNocase:
		return !strings.EqualFold(val, ref)
	case RegexMatch, RegexNoCaseMatch:
		return f.regexp != nil && f.regexp.MatchString(val)
	case RegexMatchNot, RegexNoCaseMatchNot:
		return f.regexp == nil || !f.regexp.MatchString(val)
	case Contains:
		return strings.Contains(val, ref)
	case ContainsNot:
		return !strings.Contains(val, ref)
	case ContainsNoCase:
		return strings.Contains(strings.ToLower(val), strings.ToLower(ref))
	case ContainsNoCaseNot:
		return !strings.Contains(strings.ToLower(val), strings.ToLower(ref))
	case Less:
		return val < ref
	case LessThan:
		return val <= ref
	case Greater:
		return val > ref
	case GreaterThan:
		return val >= ref
	default:
		return false
	}
}

func vMatchList(f *Filter, list []interface{}) bool {
	contains := func(nocase bool) bool {
		for _, e := range list {
			txt := vKeyText(e)
			if txt == f.stringVal || (nocase && strings.EqualFold(txt, f.stringVal)) {
				return true
			}
		}

		return false
	}
	switch f.operator {
	case Equal:
		if f.stringVal == "" {
			return len(list) == 0
		}

		return len(list) == 1 && contains(false)
	case Unequal:
		if f.stringVal == "" {
			return len(list) != 0
		}

		return !(len(list) == 1 && contains(false))
	case GreaterThan:
		return contains(false)
	case GroupContainsNot, Less:
		return !contains(false)
	case LessThan:
		return contains(true)
	case Greater:
		return !contains(true)
	case RegexMatch, RegexNoCaseMatch:
		for _, e := range list {
			if f.regexp != nil && f.regexp.MatchString(vKeyText(e)) {
				return true
			}
		}

		return false
	case RegexMatchNot, RegexNoCaseMatchNot:
		for _, e := range list {
			if f.regexp != nil && f.regexp.MatchString(vKeyText(e)) {
				return false
			}
		}

		return true
	default:
		return false
	}
}

func vStats(st *Filter, rows [][]interface{}, get vGetter) interface{} {
	switch st.statsType {
	case Sum, Average, Min, Max:
		var sum, minV, maxV float64
		count := 0
		for _, row := range rows {
			val := vToFloat(get(row, st.column.Name))
			sum += val
			if count == 0 || val < minV {
				minV = val
			}
			if count == 0 || val > maxV {
				maxV = val
			}
			count++
		}
		switch st.statsType {
		case Sum:
			return sum
		case Average:
			if count == 0 {
				return float64(0)
			}

			return sum / float64(count)
		case Min:
			return minV
		default:
			return maxV
		}
	default:
		count := 0
		for _, row := range rows {
			if vMatch(st, row, get) {
				count++
			}
		}

		return float64(count)
	}
}

// ---- default dataset ---------------------------------------------------------------

// vDefaultDataset builds a small consistent dataset for all tables lmd initialises
// (Objects.UpdateTables). Host i is "vhost<i>", its services "vsvc<j>". All timestamps are
// relative to base (a fixed epoch) so that a case is reproducible from its seed.
func vDefaultDataset(r *vRand, nHosts, nServices int) map[string]*vTable {
	const base = 1700000000
	ds := map[string]*vTable{}
	ds["status"] = &vTable{
		Cols: []string{"program_start", "nagios_pid", "livestatus_version", "program_version", "accept_passive_host_checks",
			"accept_passive_service_checks", "check_external_commands", "enable_notifications", "execute_host_checks",
			"execute_service_checks", "interval_length", "last_command_check", "last_log_rotation", "requests", "connections"},
		Rows: [][]interface{}{{float64(base - 1000), float64(4000 + r.intn(1000)), "1.4.2-naemon", "1.4.2", 1.0, 1.0, 1.0, 1.0, 1.0, 1.0, 60.0, 0.0, 0.0, 10.0, 5.0}},
	}
	ds["timeperiods"] = &vTable{
		Cols: []string{"name", "alias", "in", "days", "exceptions_calendar_dates", "exceptions_month_date", "exceptions_month_day",
			"exceptions_month_week_day", "exceptions_week_day", "exclusions", "id"},
		Rows: [][]interface{}{
			{"24x7", "always", 1.0, []interface{}{}, []interface{}{}, []interface{}{}, []interface{}{}, []interface{}{}, []interface{}{}, []interface{}{}, 0.0},
			{"workhours", "9 to 5", float64(r.intn(2)), []interface{}{}, []interface{}{}, []interface{}{}, []interface{}{}, []interface{}{}, []interface{}{}, []interface{}{}, 1.0},
		},
	}
	ds["contacts"] = &vTable{
		Cols: []string{"name", "alias", "email", "can_submit_commands", "host_notification_period", "service_notification_period",
			"host_notifications_enabled", "service_notifications_enabled", "custom_variable_names", "custom_variable_values"},
		Rows: [][]interface{}{
			{"admin", "Admin", "root@localhost", 1.0, "24x7", "24x7", 1.0, 1.0, []interface{}{}, []interface{}{}},
			{"oper", "Operator", "oper@localhost", 0.0, "workhours", "24x7", 1.0, 0.0, []interface{}{"TEAM"}, []interface{}{"ops"}},
		},
	}
	ds["contactgroups"] = &vTable{
		Cols: []string{"name", "alias", "members"},
		Rows: [][]interface{}{{"admins", "Admins", []interface{}{"admin"}}, {"everyone", "Everyone", []interface{}{"admin", "oper"}}},
	}
	ds["commands"] = &vTable{
		Cols: []string{"name", "line"},
		Rows: [][]interface{}{{"check-host-alive", "$USER1$/check_icmp -H $HOSTADDRESS$"}, {"check_dummy", "$USER1$/check_dummy $ARG1$"}},
	}

	hostCols := []string{"name", "alias", "address", "display_name", "check_command", "check_period", "notification_period", "contacts",
		"contact_groups", "groups", "parents", "childs", "services", "custom_variable_names", "custom_variable_values",
		"state", "hard_state", "last_state", "has_been_checked", "last_check", "next_check", "last_state_change", "last_hard_state_change",
		"plugin_output", "long_plugin_output", "perf_data", "acknowledged", "acknowledgement_type", "scheduled_downtime_depth",
		"active_checks_enabled", "checks_enabled", "notifications_enabled", "accept_passive_checks", "modified_attributes",
		"is_executing", "is_flapping", "current_attempt", "max_check_attempts", "check_interval", "retry_interval", "latency", "execution_time",
		"num_services", "worst_service_state"}
	hosts := &vTable{Cols: hostCols}
	svcCols := []string{"host_name", "description", "display_name", "check_command", "check_period", "notification_period", "contacts",
		"contact_groups", "groups", "custom_variable_names", "custom_variable_values",
		"state", "last_hard_state", "last_state", "has_been_checked", "last_check", "next_check", "last_state_change", "last_hard_state_change",
		"plugin_output", "long_plugin_output", "perf_data", "acknowledged", "acknowledgement_type", "scheduled_downtime_depth",
		"active_checks_enabled", "checks_enabled", "notifications_enabled", "accept_passive_checks", "modified_attributes",
		"is_executing", "is_flapping", "current_attempt", "max_check_attempts", "check_interval", "retry_interval", "latency", "execution_time",
		"state_type"}
	services := &vTable{Cols: svcCols}
	hostNames := []interface{}{}
	svcMembers := []interface{}{}
	perHost := 0
	if nHosts > 0 {
		perHost = (nServices + nHosts - 1) / nHosts
	}
	made := 0
	for i := 1; i <= nHosts; i++ {
		name := fmt.Sprintf("vhost%d", i)
		hostNames = append(hostNames, name)
		svcNames := []interface{}{}
		for j := 1; j <= perHost && made < nServices; j++ {
			desc := fmt.Sprintf("vsvc%d", j)
			svcNames = append(svcNames, desc)
			svcMembers = append(svcMembers, []interface{}{name, desc})
			state := float64(r.intn(4))
			lastCheck := float64(base - 300 + r.intn(200))
			services.Rows = append(services.Rows, []interface{}{name, desc, desc, "check_dummy!" + strconv.Itoa(int(state)), "24x7", "24x7",
				[]interface{}{"admin"}, []interface{}{"admins"}, []interface{}{"allservices"}, []interface{}{}, []interface{}{},
				state, state, 0.0, 1.0, lastCheck, lastCheck + 300, lastCheck - 1000, lastCheck - 1000,
				fmt.Sprintf("%s/%s output %d", name, desc, r.intn(1000)), "", "time=0.1s", 0.0, 0.0, 0.0,
				1.0, 1.0, 1.0, 1.0, 0.0, 0.0, 0.0, 1.0, 3.0, 5.0, 1.0, 0.25, 0.5, 1.0})
			made++
		}
		state := float64(r.intn(2))
		lastCheck := float64(base - 300 + r.intn(200))
		hosts.Rows = append(hosts.Rows, []interface{}{name, name + " alias", fmt.Sprintf("10.0.0.%d", i), name, "check-host-alive", "24x7", "24x7",
			[]interface{}{"admin", "oper"}, []interface{}{"everyone"}, []interface{}{"allhosts"}, []interface{}{}, []interface{}{}, svcNames,
			[]interface{}{"SITE"}, []interface{}{"s" + strconv.Itoa(i%3)},
			state, state, 0.0, 1.0, lastCheck, lastCheck + 300, lastCheck - 1000, lastCheck - 1000,
			fmt.Sprintf("%s output %d", name, r.intn(1000)), "", "rta=0.1ms", 0.0, 0.0, 0.0,
			1.0, 1.0, 1.0, 1.0, 0.0, 0.0, 0.0, 1.0, 3.0, 5.0, 1.0, 0.25, 0.5, float64(len(svcNames)), 0.0})
	}
	ds["hosts"] = hosts
	ds["services"] = services
	ds["hostgroups"] = &vTable{
		Cols: []string{"name", "alias", "members", "num_hosts", "num_services"},
		Rows: [][]interface{}{{"allhosts", "All hosts", hostNames, float64(nHosts), float64(made)}},
	}
	ds["servicegroups"] = &vTable{
		Cols: []string{"name", "alias", "members", "num_services"},
		Rows: [][]interface{}{{"allservices", "All services", svcMembers, float64(made)}},
	}
	comments := &vTable{Cols: []string{"id", "host_name", "service_description", "author", "comment", "entry_time", "entry_type", "type",
		"is_service", "persistent", "expires", "expire_time", "source"}}
	downtimes := &vTable{Cols: []string{"id", "host_name", "service_description", "author", "comment", "entry_time", "start_time", "end_time",
		"duration", "fixed", "triggered_by", "type", "is_service"}}
	if nHosts > 0 {
		comments.Rows = append(comments.Rows, []interface{}{1.0, "vhost1", "", "admin", "host comment", float64(base - 500), 1.0, 1.0, 0.0, 1.0, 0.0, 0.0, 0.0})
		downtimes.Rows = append(downtimes.Rows, []interface{}{1.0, "vhost1", "", "admin", "host downtime", float64(base - 400), float64(base - 300), float64(base + 3600), 3900.0, 1.0, 0.0, 2.0, 0.0})
		if made > 0 {
			comments.Rows = append(comments.Rows, []interface{}{2.0, "vhost1", "vsvc1", "oper", "service comment", float64(base - 450), 1.0, 2.0, 1.0, 1.0, 0.0, 0.0, 0.0})
		}
	}
	ds["comments"] = comments
	ds["downtimes"] = downtimes

	return ds
}

// ---- helpers to use the backend with a real peer -----------------------------------------

// vNewPeer adds a peer for the given sources to the daemon (not started, no update loop).
func vNewPeer(lmd *Daemon, id string, source, fallback []string) *Peer {
	conn := Connection{ID: id, Name: id, Source: source, Fallback: fallback}
	lmd.Config.Connections = append(lmd.Config.Connections, conn)
	peer := NewPeer(lmd, &lmd.Config.Connections[len(lmd.Config.Connections)-1])
	lmd.PeerMapLock.Lock()
	lmd.PeerMap[id] = peer
	lmd.PeerMapOrder = append(lmd.PeerMapOrder, id)
	lmd.PeerMapLock.Unlock()

	return peer
}

// vQuery runs a client request text through lmd like a client connection would and returns the raw response.
func vQuery(lmd *Daemon, text string) ([]byte, error) {
	ctx := context.Background()
	req, _, err := NewRequest(ctx, lmd, bufio.NewReader(strings.NewReader(text)), ParseOptimize)
	if err != nil {
		return nil, err
	}
	if err = req.ExpandRequestedBackends(); err != nil {
		return nil, err
	}
	res, _, err := NewResponse(ctx, req, nil)
	if err != nil {
		return nil, err
	}
	buf, err := res.Buffer()
	if err != nil {
		return nil, err
	}

	return buf.Bytes(), nil
}

func init() {
	verifRegister("vbackendselftest", "scripted backend self test: NewPeer+InitAllTables against a vBackend, GET hosts through lmd", vBackendSelfTest)
}

func vBackendSelfTest(_ []string) int {
	fail := func(format string, args ...interface{}) int {
		fmt.Fprintf(os.Stderr, "vbackendselftest FAILED: "+format+"\n", args...)

		return 1
	}
	backend := newVBackend("selftest")
	defer backend.Close()
	backend.SetDataset(vDefaultDataset(newVRand(1), 3, 7))
	lmd := verifNewDaemon()
	peer := vNewPeer(lmd, "st", []string{backend.Addr()}, nil)
	ctx := context.Background()
	if err := peer.InitAllTables(ctx); err != nil {
		return fail("InitAllTables: %s", err)
	}
	if st := peer.peerState.Get(); st != PeerStatusUp {
		return fail("peer state %s", st.String())
	}
	if !peer.HasFlag(Naemon) {
		return fail("Naemon flag not detected")
	}
	out, err := vQuery(lmd, "GET hosts\nColumns: name state num_services comments\nOutputFormat: json\n\n")
	if err != nil {
		return fail("GET hosts: %s", err)
	}
	var rows [][]interface{}
	if err = json.Unmarshal(out, &rows); err != nil {
		return fail("GET hosts: %s in %s", err, out)
	}
	if len(rows) != 3 || rows[0][0] != "vhost1" || rows[2][0] != "vhost3" {
		return fail("GET hosts returned %s", out)
	}
	out, err = vQuery(lmd, "GET services\nStats: state >= 0\nOutputFormat: json\n\n")
	if err != nil || strings.TrimSpace(string(out)) != "[[7]]" {
		return fail("GET services stats: %v %s", err, out)
	}
	// delta update + data change
	backend.SetCell("hosts", []string{"vhost2"}, "plugin_output", "changed output")
	backend.SetCell("hosts", []string{"vhost2"}, "last_check", float64(currentUnixTime()))
	if err = peer.data.Load().UpdateDelta(ctx, 0, currentUnixTime()); err != nil {
		return fail("UpdateDelta: %s", err)
	}
	out, _ = vQuery(lmd, "GET hosts\nColumns: plugin_output\nFilter: name = vhost2\nOutputFormat: json\n\n")
	if !strings.Contains(string(out), "changed output") {
		return fail("delta update not visible: %s", out)
	}
	// commands
	if err = peer.SendCommandsWithRetry(ctx, []string{"COMMAND [1] A;b", "COMMAND [2] C"}); err != nil {
		return fail("SendCommands: %s", err)
	}
	cmds := backend.Commands()
	if len(cmds) != 2 || cmds[0].Cmd != "COMMAND [1] A;b" || cmds[1].Cmd != "COMMAND [2] C" || cmds[0].Conn != cmds[1].Conn {
		return fail("command log %v", cmds)
	}
	backend.SetCommandMode(vCmdReject, "400: nope")
	err = peer.SendCommandsWithRetry(ctx, []string{"COMMAND [3] X"})
	if err == nil || err.Error() != "nope" {
		return fail("reject: %v", err)
	}
	// faults
	backend.SetMode(vModeGarbage)
	if err = peer.data.Load().UpdateDelta(ctx, 0, currentUnixTime()); err == nil {
		return fail("garbage mode: update succeeded")
	}
	backend.SetMode(vModeRefuse)
	if err = peer.InitAllTables(ctx); err == nil {
		return fail("refuse mode: init succeeded")
	}
	backend.SetMode(vModeOK)
	backend.FailAfter(3, vModeTruncate)
	if err = peer.InitAllTables(ctx); err == nil {
		return fail("failafter: init succeeded")
	}
	backend.SetMode(vModeOK)
	if err = peer.InitAllTables(ctx); err != nil {
		return fail("recovery: %s", err)
	}
	out, _ = vQuery(lmd, "GET sites\nColumns: status last_error\nOutputFormat: json\n\n")
	if strings.TrimSpace(string(out)) != `[[0,""]]` {
		return fail("sites after recovery: %s", out)
	}
	fmt.Println("OK")

	return 0
}
