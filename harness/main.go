// Command lmdverif is the verification harness binary. All logic lives in
// package lmd itself (files under inpkg/, added to /repo/pkg/lmd at build time
// through `go build -overlay`, never written into /repo).
package main

import (
	"os"

	"pkg/lmd"
)

func main() {
	os.Exit(lmd.VerifMain(os.Args[1:]))
}
