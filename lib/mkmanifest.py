#!/usr/bin/env python3
"""Regenerates MANIFEST.json from the per-property descriptions below."""
import json
import os

HERE = os.path.dirname(os.path.dirname(os.path.abspath(__file__)))
ENV = "GOFLAGS=-mod=mod GOPROXY=off GOSUMDB=off GOTOOLCHAIN=local"

CHECKS = {
    "C18": dict(
        text="Theorems (Coq, unbounded in nodes/backends/history length): the assignment computed by redistribute is a partition of the configured backends over the online nodes (order preserving), any two online nodes differ by at most one backend, and after every history of membership changes a node runs exactly the peers the last membership assigns to it. The executable model is tied to nodes.go by a correspondence stream that drives the real Nodes/Peer objects (exhaustive over all shapes <=4 nodes x <=8 backends x online subsets in quick, <=6 x <=12 in thorough, plus generated histories) and evaluates the model inside Coq on the same inputs. Query equivalence of a cluster node is covered by the cluster stream (see DESIGN 6/C18).",
        note="Trusted: Coq kernel + vm_compute; harness and cases emitter; membership sets are driven (ping/heartbeat/HTTP timing modelled, not verified); sub-peers of federated backends outside the model. Axioms: none.",
        technique="Coq proof (induction over node list / history) + in-Coq differential correspondence against the real redistribute",
        design="6/C18"),
}

NOT_APPLICABLE = {}


def main():
    props = [json.loads(l) for l in open(os.path.join(HERE, "properties.jsonl"))]
    checks = []
    for p in props:
        pid = p["id"]
        if pid not in CHECKS:
            continue
        c = CHECKS[pid]
        checks.append({
            "property_id": pid,
            "quick_cmd": "%s ./check %s quick" % (ENV, pid),
            "thorough_cmd": "%s ./check %s thorough" % (ENV, pid),
            "evidence_file": "/verif/evidence/%s.json" % pid,
            "replay_cmd_template": "%s ./check %s quick --replay {path}" % (ENV, pid),
            "engine": "coq-model+go-harness",
            "level_claimed": {"category": "proof", "text": c["text"], "design_ref": c["design"]},
            "level_note": c["note"],
            "technique": c["technique"],
        })
    na = []
    for p in props:
        if p["id"] not in CHECKS:
            na.append({"property_id": p["id"], "reason": NOT_APPLICABLE.get(p["id"], "not yet claimed: model, theorems and correspondence stream for this property are still being built (see DESIGN.md section 6); nothing is claimed before its Props file compiles and its stream is green")})
    manifest = {
        "version": 1,
        "setup_cmd": "%s ./check setup" % ENV,
        "hooks": {
            "guard": "verif",
            "enable": "go build -tags verif -overlay work/hbuild/overlay.json: the harness files /verif/harness/inpkg/*.go (all `//go:build verif`, package lmd) are added to /repo/pkg/lmd at build time through a go build overlay; nothing is written into /repo, so there are no hook commits",
            "baseline_off_cmd": "cd /repo/pkg/lmd && GOFLAGS=-mod=mod GOPROXY=off GOSUMDB=off GOTOOLCHAIN=local go test -vet=off -count=1 -timeout 25m ./...",
            "source_commits": [],
            "add_only": True,
        },
        "engines": [{
            "name": "coq-model+go-harness", "path": "/verif/check",
            "serves_properties": sorted(CHECKS),
            "kind_free_text": "Coq 8.16.1 development (coq/theories: executable Gallina models, proofs, Props files) + Go harness compiled into package lmd through a build overlay; correspondence evaluated inside Coq with vm_compute",
        }],
        "checks": checks,
        "not_applicable": na,
        "notes": "fix: commits in /repo are listed in known_findings.json (fixed entries). DESIGN.md describes the approach.",
    }
    json.dump(manifest, open(os.path.join(HERE, "MANIFEST.json"), "w"), indent=1)


if __name__ == "__main__":
    main()
