#!/usr/bin/env python3
"""Regenerates MANIFEST.json from the per-property descriptions below."""
import json
import os

HERE = os.path.dirname(os.path.dirname(os.path.abspath(__file__)))
ENV = "GOFLAGS=-mod=mod GOPROXY=off GOSUMDB=off GOTOOLCHAIN=local"

CHECKS = {
    "C18": dict(
        text="Theorems (Coq, unbounded in nodes/backends/history length): the assignment computed by redistribute is a partition of the configured backends over the online nodes (order preserving), any two online nodes differ by at most one backend, and after every history of membership changes a node runs exactly the peers the last membership assigns to it. The executable model is tied to nodes.go by a correspondence stream that drives the real Nodes/Peer objects (exhaustive over all shapes <=4 nodes x <=8 backends x online subsets in quick, <=6 x <=12 in thorough, plus generated histories) and evaluates the model inside Coq on the same inputs. Query equivalence of a cluster node is covered by the cluster stream (see DESIGN 6/C18).",
        note="Trusted: Coq kernel + vm_compute; harness and cases emitter; membership sets are driven (ping/heartbeat/HTTP timing modelled, not verified); sub-peers of federated backends outside the model. Axioms: none.",
        technique="Coq proof (induction over node list / history) + in-Coq differential correspondence against the real redistribute",
        design="6/C18"),
}

CHECKS["C01"] = dict(
    text="Theorems (Coq): the evaluation strategy of DataRow.MatchFilter (negation handed down, And/Or swapped) equals the literal reading of the filter expression for every row, tree and nesting depth incl. double negation (structural induction on the nested filter type); for every dataset/config/request without Sort/Limit/Offset the response rows are exactly the rows of the selected available backends whose filter expressions are all true, each once, and total_count is their number; stored cells are returned unchanged. The executable model (request parser in both modes, typed comparison of all 17 operators on all column types, reference/virtual/optional/_lc column resolution over the schema regenerated from the code on every run) is tied to the code by a stream of generated datasets x filter trees evaluated through NewRequest/NewResponse/Buffer and compared inside Coq.",
    note="Trusted: Coq kernel + vm_compute; gen translator (schema), harness (dataset generator, snapshot writer, response canonicaliser); own regex matcher for the generated RE2 subset (Go regexp is an oracle), case folding on ASCII+Latin-1, floats as 3-decimal fixed point. Requests outside the modelled fragment are counted as skipped in the evidence. Axioms: none.",
    technique="Coq proof (induction over filter trees; refinement of the gather loop to a filter specification) + in-Coq differential correspondence over generated datasets and requests",
    design="6/C01")
CHECKS["C13"] = dict(
    text="Theorems (Coq, all event histories by induction over an invariant): a backend is reported up only with data, cleared error and nothing failed since the last synchronisation; warning keeps data at most StaleBackendTimeout old; a failure after the stale timeout drops the data and lists the backend as failed; recovery clears the error; idle rate, first query wakes and refreshes; source rotation. The model transcribes periodicUpdate/setNextAddrFromErr/resetErrors/updateIdleStatus/ResumeFromIdle/GetDataStore; stream: a real Peer against scripted backends switched ok/refuse/garbage with explicitly shifted time, GET sites and data queries after every event.",
    note="Trusted: Coq kernel + vm_compute; harness and scripted backend (vbackend.go); real timers are single-stepped (periodicUpdate called directly, timestamps shifted), HTTP/LMD-sub peers outside the model. Axioms: none.",
    technique="Coq proof (invariant over event histories of the peer state machine) + in-Coq differential correspondence against a real Peer and scripted backends",
    design="6/C13")
CHECKS["C15"] = dict(
    text="Theorems (Coq, all sessions of writes): per selected reachable backend the command log is exactly the received commands in order grouped per batch; at most once, or exactly one retry after a connection break; never sent to a down backend; a backend's rejection is returned to the client; bytes unchanged apart from trimmed whitespace; an accepted command schedules the refresh. Stream: a real lmd listener + real peers against scripted backends recording their command log, generated batches (arbitrary argument bytes, keep-alive mixes, Backends headers, peer states, accept/reject/drop).",
    note="Trusted: Coq kernel + vm_compute; harness and scripted backend. Clients do not pipeline (a GET is the last request of a write: ParseRequests uses a fresh bufio.Reader per call) - stated assumption; goroutine scheduling among several failing backends, the 1 s polls and command timeout are driven, HTTP backends and cluster forwarding outside the model. Axioms: none.",
    technique="Coq proof (induction over request batches / sessions) + in-Coq differential correspondence against a real listener and scripted backends",
    design="6/C15")
CHECKS["C20"] = dict(
    text="Theorems (Coq, all sequences of configurations): the transcribed initializePeers/initializeListeners loops refine a per-object specification; unchanged definitions keep the same peer object and cache throughout; removed backends are gone from map and order; added are present; a changed definition gets a new object (distinct from every earlier one, empty cache) and the old one is stopped and never serves again; order follows the configuration; open listeners equal the configured set, unchanged ones are the same objects; reloading an equal configuration is the identity; invalid configurations exit. Streams: the real mainLoop driven by TOML files and SIGHUP with GET sites through real unix clients after every step (pointer identity of peers/listeners recorded), plus a concurrent variant with clients querying during reloads.",
    note="Trusted: Coq kernel + vm_compute; harness. 'Keeps serving throughout' is exercised by the concurrent stream (schedule dependent), not proved for the Go scheduler; backends are dead sockets (no synchronisation content). Axioms: none.",
    technique="Coq proof (refinement of the reload loops to a specification, induction over reload histories) + in-Coq differential correspondence against the real main loop",
    design="6/C20")

QE_NOTE = "Trusted: Coq kernel + vm_compute; gen translator (schema from Objects.Tables on every run), harness (dataset generator, snapshot writer, response canonicaliser); own regex matcher for the generated RE2 subset, case folding on ASCII+Latin-1, floats as 3-decimal fixed point (stats compared with a 2^-40 relative tolerance). Requests outside the modelled fragment are counted as skipped in the evidence. Axioms: none."
CHECKS["C04"] = dict(
    text="Theorems (Coq, all datasets and requests): the contributing backends are exactly the configured ones selected by the Backends header (all without header) that hold data, each at most once even for repeated ids; the response rows are the concatenation, in configuration order, of the matching rows of exactly those backends; peer_key/peer_name cells are the backend's; the failed map holds exactly the unknown ids of the header and the selected backends without data. Stream: 1-4 generated backends, random subset down, every Backends header shape, all tables incl. sites, json and wrapped_json, compared in Coq.",
    note=QE_NOTE, technique="Coq proof (characterisation of backend selection and failed map, union theorem via C01) + in-Coq differential correspondence", design="6/C04")
CHECKS["C05"] = dict(
    text="Theorems (Coq, all row lists / datasets / splits): a counter equals the number of selected rows satisfying its Stats expression under the literal semantics; sum/avg accumulate sum and count; min/max are the true extrema (negative values included); merging the accumulators of two row lists equals the accumulator of their concatenation (independence of the distribution over backends); the Stats response without group-by Columns is one line of the aggregates over all selected rows of all contributing backends. Group-by Columns and the grouping optimiser are covered by the correspondence stream (programs whose leading terms coincide incl. StatsOr/negated/nested/custom-variable shapes; the implementation runs its optimiser, the model never groups) and by C07's two-mode stream.",
    note=QE_NOTE + " Proved for the un-grouped evaluation; the optimiser's equivalence is checked by correspondence only.",
    technique="Coq proof (fold/accumulator algebra, split invariance, refinement of the merge to the aggregate over the union) + in-Coq differential correspondence", design="6/C05")
CHECKS["C08"] = dict(
    text="Theorems (Coq): the contact rule evaluated by isAuthorizedFor equals the declarative relation (host contact; service contact, or host contact under loose ServiceAuthorization); the group rule (loose: some member, strict: all members of a non-empty group); a row is returned iff it belongs to a contributing backend, satisfies the filters and passes the contact rule (soundness and completeness); Stats use the same selection; tables without contacts and requests without AuthUser are unaffected. Stream: generated contact assignments x 4 authorisation settings x all tables incl. by-group tables, data and Stats requests.",
    note=QE_NOTE, technique="Coq proof (declarative characterisation of the contact rules, soundness+completeness of the selection) + in-Coq differential correspondence", design="6/C08")
CHECKS["C09"] = dict(
    text="Theorems (Coq): the dispatch matrix generated from the code on every run (every non-pass-through table x every column incl. the unknown-column fallback x 25 usage kinds - Columns in both formats, Filter with 7 operator classes and empty/typical arguments, sum/avg/min/max, counter, group key, Sort, WaitCondition - plus 97 request-level shapes per table) has no panic or no-answer entry and covers the whole schema (C09_matrix_no_panic_entry, C09_matrix_covers_schema); every request composed of matrix lines is answered 200 or 400 and panics iff one of its lines is a panic entry (all requests, all matrices); the backend reply path (header parser, announced size, body, any decoder function, positional cell access of every consumer) answers 'backend failed' or accepts and never panics, for all byte strings; the pinned tree's reply path is refuted (short row, 10^11 bytes announced). Stream: an lmd worker process (unix socket, peers, ulimit -v) fed with generated structured and raw requests and wired to a misbehaving scripted backend; liveness, watchdog, canary query; response codes against the dispatch model, update steps against the reply path model.",
    note="Trusted: Coq kernel + vm_compute (obligations over the generated matrix); the translator c09_gen.go which MEASURES each matrix entry by running the request through NewRequest/NewResponse/Buffer under recover and a log hook (a finite function graph extracted from the code, not a proof about Go); harness, scripted backend and worker supervision. Composition of several header lines is modelled as 'first panicking line decides' and exercised by the stream; goroutine scheduling, memory exhaustion other than the announced-size allocation and the HTTP/TLS listeners are not modelled. Axioms: none.",
    technique="Coq proof over a dispatch matrix regenerated from the code (translator) + reply-path model proved panic free for all byte strings + in-Coq differential correspondence against a supervised lmd process", design="6/C09")
CHECKS["C11"] = dict(
    text="Theorems (Coq, all histories of restart / count change / update cycles with a failure at any of the rebuild's table fetches): what is served is always nothing or one complete object set the backend really had (never a mixture); a completed rebuild serves the backend's current set; a failed rebuild leaves the backend reported failed or still serving the complete old set; after a restart and any faults one fault-free cycle reloads (refuted for the order of side effects of the pinned code, which the fix: commit changed). Stream: scripted backend restarts with changed object sets, FailAfter(k) for every k, recovery; all tables compared after every event, plus a concurrent reader.",
    note="Trusted: Coq kernel + vm_compute; harness and scripted backend; goroutine scheduling of the parallel rebuild and 'during' observations are exercised, not proved. Axioms: none.",
    technique="Coq proof (invariant over restart/fault histories) + in-Coq differential correspondence against a real Peer and a scripted backend", design="6/C11")
CHECKS["C12"] = dict(
    text="Theorems (Coq, all histories of add/remove/reorder/update): after an update run the cached comments/downtimes equal the backend's entries with all columns; every difference of the id sets is detected under monotone ids (also for out-of-order appended caches, removing the newest, emptying the table); every host's and service's id lists and *_with_info rows are exactly the attached entries. Stream: generated histories against a scripted backend with shuffled reply order, GET comments/downtimes and hosts/services list columns after every step.",
    note="Trusted: Coq kernel + vm_compute; harness and scripted backend. Axioms: none.",
    technique="Coq proof (invariant over add/remove histories) + in-Coq differential correspondence against a real Peer and a scripted backend", design="6/C12")

CHECKS["C06"] = dict(
    text="Theorems (Coq, all datasets/requests): without early cut-off the response rows are exactly the window [Offset, Offset+Limit) of the sorted union of all matching rows; with the per-backend cut-off at Limit+Offset (default sort order) the window has the same sort keys at every position and the same length, provided each backend's store is in default order (top-k of a union of sorted lists, proved for any total transitive order with ties); without Sort the rows are equal; the result is sorted by the Sort keys (numeric/string/custom-variable comparison, per-key direction; total preorder proved on keys of one request); rows are matching rows; total_count equals the number of matching rows in wrapped_json. Stream: 1-4 backends with interleaving names, 0-3 sort keys incl. custom variables and keys outside Columns, Limit/Offset incl. 0 and beyond the result, both formats; comparison modulo ties inside Coq.",
    note=QE_NOTE + " sort.Sort is modelled as a stable insertion sort; agreement is checked modulo ties. Hypothesis of the cut-off theorem (stores in primary-key order) is an assumption about lmd's data, exercised by the stream.",
    technique="Coq proof (total preorder on sort keys, insertion sort facts, top-k of a union of sorted lists, window arithmetic) + in-Coq differential correspondence modulo ties", design="6/C06")
CHECKS["C07"] = dict(
    text="Theorems (Coq, all strings / expressions): the model's regex matcher computes the denotational semantics (Brzozowski derivatives proved correct); a regex text without meta characters compiles to its literal and searching it equals the substring test (all four operator forms, case-insensitive via lower-casing); ^literal$ equals equality; leading/trailing .* can be trimmed; the lower-case shadow column rewriting is sound; unwrapping a single top-level And group is sound; the documented dot heuristic is exhibited as the only deviation (witness). Index pre-selection and Stats grouping are run by the implementation only and checked by the stream: every generated request is evaluated in BOTH parse modes against the model, and the model's two answers must coincide unless the dot heuristic applies.",
    note=QE_NOTE + " Index pre-selection and Stats grouping are not modelled (correspondence only): a sound index/grouping is what makes the implementation agree with the un-indexed, un-grouped model.",
    technique="Coq proof (regex derivative matcher correctness, rewriting lemmas) + in-Coq differential correspondence in both parse modes with a cross-mode check", design="6/C07")
CHECKS["C10"] = dict(
    text="Theorems (Coq, all values / bodies / request sequences): print_parse (the byte-level printer of the response writer followed by a verified JSON parser returns the value, for every byte string incl. control bytes, quotes, backslashes, invalid UTF-8 after replacement, duplicate keys, any nesting); the body printed for any table of cells parses to the documented shape (rows, optional header row; wrapped object with data/failed/columns/rows_scanned/total_count) with one value per requested column in order; custom variable objects with missing values; the fixed16 header is 16 bytes and its length field equals the body bytes that follow; keep-alive sequences yield one response per parsable request in order, an unparsable one yields one error text and ends the connection. Stream: adversarial cached strings, all tables, unknown/duplicate/reference/virtual columns, both formats, Stats, raw bytes through Response.send and over a real unix-socket listener.",
    note="Trusted: Coq kernel + vm_compute; harness; jsoniter's string escaping is modelled byte-level and tied by the stream; floats, raw JSON columns and WriteVal tokens enter the shape theorems as a per-cell hypothesis checked per case. Axioms: none.",
    technique="Coq proof (printer/parser round trip, shape and framing theorems) + in-Coq differential correspondence on raw response bytes", design="6/C10")
CHECKS["C17"] = dict(
    text="Theorems (Coq): every operator's serialised spelling parses back to an operator with the same matching behaviour (finite, all 17); the Filter/And/Or/Negate postfix notation rebuilds every filter tree on the parser's stack machine (any depth, any negations). Text level by correspondence: every generated request (all operators x column types, nested negated groups, empty values, custom variable terms, Stats incl. groupable blocks, Sort incl. custom variable keys, Limit/Offset, AuthUser) is parsed in both modes, serialised by Request.String(), parsed again and evaluated; the answer must equal the model's answer to the original, the text must equal the model renderer's text, and the model's own parse.render.parse must answer the same.",
    note=QE_NOTE + " The text-level round trip (tokenisation of rendered lines) is checked by the stream, the theorems cover operators and tree structure.",
    technique="Coq proof (operator table, postfix/stack-machine round trip by induction on trees) + in-Coq differential correspondence of parse -> String() -> parse in both modes", design="6/C17")

CHECKS["C03"] = dict(
    text="Theorems (Coq, all finite histories of backend mutations, delta updates over contiguous windows, due/not-due full scans, aborted updates, timeperiod flips): composeTimestampFilter selects exactly the given timestamps; every served host/service row is one of its object's real versions at every moment (row integrity, under the stated stamp hypothesis; refuted by witness for backends without last_update when strings change with unchanged last_check = known finding D19) and never older than one served before; without aborts every mutation stamped before the window end is in the cache; after the backend went quiet the cache converges within ceil(m/149) cycles incl. after aborted cycles; timeperiod refresh. Stream: real Peer against a scripted backend with version stamps replicated into int and string columns, UpdateDelta/periodicUpdate steps with explicit windows and shifted time, injected connection errors; all dynamic columns compared after every step.",
    note="Trusted: Coq kernel + vm_compute; harness and scripted backend; wall-clock effects (time.Now inside updateFullScan, the minute ticker) are driven, goroutine schedules belong to C14. Axioms: none. Known finding D19 is reported as KNOWN-FINDING for exactly its input class.",
    technique="Coq proof (invariants over update histories, convergence by iteration) + in-Coq differential correspondence against a real Peer and a scripted backend", design="6/C03")
CHECKS["C16"] = dict(
    text="Theorems (Coq, all inputs): the final row has exactly one cell per requested column in request order for every mix/order/duplication of backend and LMD-side columns and sort keys inside or outside the column list; without Limit the result is a permutation of the union of all reachable backends' rows; with Limit at most that many genuine rows; sorted by the Sort keys; Stats counters and sums add up over the backends (avg = mean of the backends' averages, min/max over the reported numbers - stated precisely); unreachable backends are listed in the failed map; the sub-query carries the client's filter, stats and the backend-side columns. Stream: real daemon with up to 4 real Peers against scripted backends with scripted log rows and distinct stats numbers, some unreachable; client response and the sub-queries received by the backends compared with the model; crash-prone cases run in child processes.",
    note="Trusted: Coq kernel + vm_compute; harness, scripted backend and its log front end. Axioms: none.",
    technique="Coq proof (splice/merge/sort/limit model of the pass-through pipeline) + in-Coq differential correspondence against real peers and scripted backends", design="6/C16")

CHECKS["C14"] = dict(
    text="PARTIAL. Theorems (Coq, any number of threads, any programs passing the static discipline check, any schedule of any length, by invariants): what a reader serialises under its read locks is the content the store had at the batch boundary at which it locked (never a half applied batch; for whole-row batches all columns of a serialised row carry one version); the wait-for graph of threads that lock in increasing table id order is acyclic (with writer preference); a data set built aside is invisible until its atomic publication; lockset discipline computed over a hand-written access table (shared field x function x locks) - refuted for the pinned code (dupStringList and six other fields, witness by vm_compute), holds after the fix: commits. The theorems are about the protocol model, NOT about Go. Stream c14race is EXPLORATION, not proof: generated scenarios of real Peers, update loop, rebuild swaps, peers going down/up and 4-8 clients over a real listener in a -race build with go-deadlock; torn rows by version stamps, race detector and deadlock reports parsed, crashes.",
    note="PARTIAL: data races, Go memory model effects, scheduler dependent crashes and the question whether the code follows the modelled protocol are only explored (seeded scenarios of a few seconds, scheduling not controlled, replay best effort). The access table is hand-written and validated only as far as the scenarios execute the accesses concurrently. Trusted: Coq kernel + vm_compute, harness (scenario generator, stamp decoder, report parser), scripted backend, Go race detector (checkptr off because of third-party unsafe code), go-deadlock. Axioms: none.",
    technique="Coq proof about the locking protocol model (invariants over interleavings) + race-detector / deadlock / version-stamp exploration of the real code",
    design="6/C14")

CHECKS["C02"] = dict(
    text="Theorems (Coq, all reply row lists): the loaded store does not depend on the row order of the backend's replies (any sorter returning a sorted permutation, unique primary keys); every object is present exactly once and every cell a client reads is the documented coercion of the delivered value (= the delivered value for values in the column's range: explicit boolean predicate; nil, Icinga2's 0 for empty lists, int8 clamping spelled out); reference columns of services/comments/downtimes read the referenced object's columns, dangling references read the empty value; group member states; every host's/service's comment and downtime id lists are exactly the attached entries in table order; schema obligations re-proved over the generated schema. Stream c02init: scripted backend with rows in random order, MaxParallelPeerConnections 1/4, four flavours through the columns table, strings >512 bytes, control bytes and invalid UTF-8, equal/near-equal lists incl. a real xxhash32 collision found per run, numbers at the int8/int64 edges; real InitAllTables; full-column GET on every table compared with model and source rows.",
    note="Trusted: Coq kernel + vm_compute; gen translator; harness incl. the wire wrapper recording requested/delivered bytes; zstd compression, djson decoding, stringdedup and xxhash are exercised by the stream only. Int64 beyond 2^53 is outside in_range (float64 JSON numbers). Axioms: none.",
    technique="Coq proof (sort/insert/index/reference/id-list model, permutation invariance, faithfulness) + in-Coq differential correspondence against a real Peer and a scripted backend", design="6/C02")
CHECKS["C19"] = dict(
    text="Theorems (Coq): generated obligations re-proved on every run - the model's export rule equals the graph of Exporter.isExportColumn dumped from the code, and every observable column of every cached table is exported or recomputed on import (_lc, references, virtual columns, id lists); cell encoding round trip; for every well-formed store the import of the export has the same key/name/flags and answers every table x column list identically (hence every query). Stream c19snapshot: daemon A loaded from scripted backends of different flavours, real Exporter into a tarball, daemon B through the importer, identical generated queries to both.",
    note="Trusted: Coq kernel + vm_compute; gen translator (Schema.v, Export.v); harness; tar/gzip. The link 'load produces a well-formed store' is evaluated per case by the stream, not proved. Axioms: none.",
    technique="Coq proof (export/import round trip over the generated schema and export graph) + in-Coq differential correspondence exporter -> importer", design="6/C19")

NOT_APPLICABLE = {}


def main():
    props = [json.loads(l) for l in open(os.path.join(HERE, "properties.jsonl"))]
    checks = []
    for p in props:
        pid = p["id"]
        if pid not in CHECKS:
            continue
        c = CHECKS[pid]
        checks.append({
            "property_id": pid,
            "quick_cmd": "%s ./check %s quick" % (ENV, pid),
            "thorough_cmd": "%s ./check %s thorough" % (ENV, pid),
            "evidence_file": "/verif/evidence/%s.json" % pid,
            "replay_cmd_template": "%s ./check %s quick --replay {path}" % (ENV, pid),
            "engine": "coq-model+go-harness",
            "level_claimed": {"category": "proof", "text": c["text"], "design_ref": c["design"]},
            "level_note": c["note"],
            "technique": c["technique"],
        })
    na = []
    for p in props:
        if p["id"] not in CHECKS:
            na.append({"property_id": p["id"], "reason": NOT_APPLICABLE.get(p["id"], "not yet claimed: model, theorems and correspondence stream for this property are still being built (see DESIGN.md section 6); nothing is claimed before its Props file compiles and its stream is green")})
    manifest = {
        "version": 1,
        "setup_cmd": "%s ./check setup" % ENV,
        "hooks": {
            "guard": "verif",
            "enable": "go build -tags verif -overlay work/hbuild/overlay.json: the harness files /verif/harness/inpkg/*.go (all `//go:build verif`, package lmd) are added to /repo/pkg/lmd at build time through a go build overlay; nothing is written into /repo, so there are no hook commits",
            "baseline_off_cmd": "cd /repo/pkg/lmd && GOFLAGS=-mod=mod GOPROXY=off GOSUMDB=off GOTOOLCHAIN=local go test -vet=off -count=1 -timeout 25m ./...",
            "source_commits": [],
            "add_only": True,
        },
        "engines": [{
            "name": "coq-model+go-harness", "path": "/verif/check",
            "serves_properties": sorted(CHECKS),
            "kind_free_text": "Coq 8.16.1 development (coq/theories: executable Gallina models, proofs, Props files) + Go harness compiled into package lmd through a build overlay; correspondence evaluated inside Coq with vm_compute",
        }],
        "checks": checks,
        "not_applicable": na,
        "notes": "fix: commits in /repo are listed in known_findings.json (fixed entries). DESIGN.md describes the approach.",
    }
    json.dump(manifest, open(os.path.join(HERE, "MANIFEST.json"), "w"), indent=1)


if __name__ == "__main__":
    main()
