"""Generic driver of one property check; the per-property modules under
checks/ only describe their Coq targets and correspondence streams."""
import json
import os
import sys
import time

import vcheck as V


class Stream:
    """one correspondence stream: harness sub command -> cases.v -> coqc"""

    def __init__(self, name, cmd, n_quick, n_thorough, shards_thorough=1, valid=None, classify=None,
                 extra_args=None, what="", timeout=3000, shrinker=None):
        self.name, self.cmd = name, cmd
        self.n_quick, self.n_thorough, self.shards_thorough = n_quick, n_thorough, shards_thorough
        self.valid, self.classify = valid, classify
        self.extra_args = extra_args or []
        self.what = what
        self.timeout = timeout
        self.shrinker = shrinker      # optional: input -> iterable of structurally smaller inputs


class Prop:
    def __init__(self, pid, coq_props, coq_run, streams, trusted_base, assumptions, gen=True,
                 props_module=None, extra_targets=None, gen_files=None):
        self.pid = pid
        self.coq_props = coq_props            # e.g. theories/C18/Props.v
        self.coq_run = coq_run                # list of .v files the streams need (model only)
        self.streams = streams
        self.trusted_base = trusted_base
        self.assumptions = assumptions
        self.gen = gen
        self.props_module = props_module or coq_props[len("theories/"):-2].replace("/", ".")
        self.extra_targets = extra_targets or []
        self.gen_files = gen_files or []     # generated Gen/*.v files besides Schema.v this property's theories import


def load_known():
    path = os.path.join(V.VERIF, "known_findings.json")
    try:
        return json.load(open(path))
    except OSError:
        return {"findings": [], "fixed": []}


def vo(v):
    return v[:-2] + ".vo"


def private_harness(wd):
    return os.path.join(wd, "lmdverif")


def run_stream(prop, st, tier, seed, wd, replay=None, tag="main", shard=0):
    cases = os.path.join(wd, "cases_%s_%s_%d.v" % (st.name, tag, shard))
    meta = os.path.join(wd, "meta_%s_%s_%d.json" % (st.name, tag, shard))
    n = st.n_quick if tier == "quick" else st.n_thorough
    args = [st.cmd, "--seed", str(seed + 7919 * shard), "--n", str(n), "--out", cases, "--meta", meta,
            "--tier", tier] + st.extra_args
    if replay:
        args += ["--replay", replay]
    rc, out, dur = V.sh([private_harness(wd)] + args, cwd=wd, timeout=st.timeout)
    if rc != 0:
        return {"ok": False, "stage": "harness", "out": out, "meta": None, "idx": []}
    m = json.load(open(meta))
    ok, idx, cout = V.eval_cases(cases)
    return {"ok": ok, "stage": "coqc", "out": cout, "meta": m, "idx": idx, "harness_s": dur,
            "skipped": (lambda m: int(m.group(1)) if m else 0)(__import__("re").search(r"^SK\s*=\s*(\d+)", cout, __import__("re").M)),
            # optional: cases whose data does not meet the hypotheses of the closed theorems (reported only)
            "hyp_failed": (lambda m: int(m.group(1)) if m else None)(__import__("re").search(r"^HY\s*=\s*(\d+)", cout, __import__("re").M))}


def shrink(prop, st, tier, seed, wd, inp):
    """greedy delta debugging on the JSON input, batches of candidates per coqc call"""
    best = inp
    t_end = time.time() + float(os.environ.get("VERIF_SHRINK_BUDGET", "40"))
    for rnd in range(25):
        if time.time() > t_end:
            break
        cands = []
        import itertools
        gens = [st.shrinker(best)] if st.shrinker else []
        gens.append(V.shrink_json(best))
        for c in itertools.chain(*gens):
            if st.valid and not st.valid(c):
                continue
            if V.json_size(c) >= V.json_size(best):
                continue
            cands.append(c)
            if len(cands) >= 30:
                break
        if not cands:
            break
        rp = os.path.join(wd, "shrink_%s.json" % st.name)
        json.dump({"inputs": cands}, open(rp, "w"))
        res = run_stream(prop, st, tier, seed, wd, replay=rp, tag="shrink")
        if not res["ok"] or not res["idx"] or res["idx"] == [-1]:
            break
        cand = min((cands[i] for i in res["idx"] if i < len(cands)), key=V.json_size, default=None)
        if cand is None or V.json_size(cand) >= V.json_size(best):
            break
        best = cand
    return best


def run_property(prop, tier, replay=None):
    # one run per property and tree at a time (they share the work directory)
    with V.Lock("prop_" + prop.pid + V.REPO_TAG):
        return _run_property(prop, tier, replay)


def _run_property(prop, tier, replay=None):
    t0 = time.time()
    seed = int(os.environ.get("VERIF_SEED", "1") or "1")
    wd = os.path.join(V.WORK, prop.pid + V.REPO_TAG)
    os.makedirs(wd, exist_ok=True)
    # runs against a scratch copy (VERIF_REPO, seeded-change trials) keep their replays and evidence apart:
    # evidence/ and replays/ describe /repo only
    out_root = V.VERIF if not V.REPO_TAG else os.path.join(V.WORK, "scratch" + V.REPO_TAG)
    os.makedirs(os.path.join(out_root, "replays"), exist_ok=True)
    known = load_known()
    import glob, shutil
    if replay:
        # the file to replay may be one of the replays of the previous run, which are cleared below
        keep = os.path.join(wd, "replay_input.json")
        shutil.copyfile(replay, keep)
        replay = keep
    for old in glob.glob(os.path.join(out_root, "replays", "%s_*.json" % prop.pid)):
        os.remove(old)
    violations = []       # (replay path, note, no_input)
    known_hits = []
    broken = []           # names of theorems / correspondences that no longer check
    cov = {"streams": {}, "histogram": {}}

    def replay_path(name):
        return os.path.join(out_root, "replays", "%s_%s.json" % (prop.pid, name))

    with V.Lock("global"):
        # 1. harness
        hok, hout = V.build_harness()
        if not hok:
            broken.append("correspondence harness no longer builds against /repo (go build -tags verif)")
            V.log(hout[-3000:])
        # 2. generated files
        if hok and prop.gen:
            gok, gout = V.regen(prop.gen_files)
            if not gok:
                broken.append("translator `lmdverif gen` failed")
                V.log(gout[-3000:])
        # 3. coq: model first (needed for the search), then proofs
        targets_run = [vo(v) for v in prop.coq_run]
        rok, rout = V.coq_make(targets_run)
        if not rok:
            raise V.CheckError("model files do not compile:\n" + rout[-4000:])
        pok, pout = V.coq_make([vo(prop.coq_props)] + [vo(v) for v in prop.extra_targets])
        if not pok:
            failed = [l for l in pout.splitlines() if l.startswith("File ") or "Error" in l][:6]
            broken.append("proof obligation no longer checks: " + " | ".join(failed))
            V.log(pout[-3000:])
        # 4. gate + assumptions
        bad = V.gate([prop.coq_props] + prop.coq_run + prop.extra_targets)
        if bad:
            raise V.CheckError("forbidden vernacular in the development: %s" % bad)
        obligations, per_file = V.count_obligations([prop.coq_props] + prop.extra_targets)
        names = V.theorem_names(prop.coq_props)
        assumptions = {}
        if pok:
            aok, assumptions = V.print_assumptions(prop.pid, prop.props_module, names)
            if not aok:
                broken.append("Print Assumptions run failed")
        discharged = obligations if pok else 0
        coqchk = None
        if pok and tier == "thorough" and os.environ.get("VERIF_COQCHK", "1") != "0":
            # independent re-check of the compiled Props file and everything it depends on
            rc, cout, cdur = V.sh(["coqchk", "-silent", "-o", "-Q", "theories", "LMD", "LMD." + prop.props_module],
                                  cwd=V.COQ, timeout=3000)
            axioms = [l.strip() for l in cout.splitlines() if l.strip().startswith("* Axioms")]
            tailtxt = " ".join(cout.split()[-60:])
            coqchk = {"rc": rc, "seconds": round(cdur, 1), "summary": tailtxt[-600:]}
            V.log("coqchk rc=%d in %.0fs" % (rc, cdur))
            if rc != 0:
                broken.append("coqchk rejects %s: %s" % (prop.props_module, tailtxt[-300:]))
        if hok:
            import shutil
            shutil.copyfile(V.HARNESS_BIN, private_harness(wd))
            os.chmod(private_harness(wd), 0o755)
    # 5. streams (outside the build lock, with a private copy of the harness binary)
    if True:
        evaluations, nontrivial, samples, programs, disagreements = 0, 0, [], 0, 0
        exhaustive = None
        rules = []
        if hok:
            for st in prop.streams:
                shards = st.shards_thorough if tier == "thorough" else 1
                results = []
                if replay:
                    # a replay file written by a check names its stream: the other streams have another input format
                    try:
                        rstream = json.load(open(replay)).get("stream")
                    except (OSError, ValueError, AttributeError):
                        rstream = None
                    if rstream and rstream != st.name and any(x.name == rstream for x in prop.streams):
                        continue
                    results.append(run_stream(prop, st, tier, seed, wd, replay=replay, tag="replay"))
                else:
                    # committed corpus first
                    corpus = os.path.join(V.VERIF, "replays", "corpus", prop.pid, st.name + ".json")
                    if os.path.exists(corpus):
                        results.append(run_stream(prop, st, tier, seed, wd, replay=corpus, tag="corpus"))
                    if shards <= 1:
                        results.append(run_stream(prop, st, tier, seed, wd, shard=0))
                    else:
                        # shards differ in their seed, run them side by side (the sandbox has 16 cores)
                        from concurrent.futures import ThreadPoolExecutor
                        with ThreadPoolExecutor(max_workers=min(shards, int(os.environ.get("VERIF_JOBS", "6")))) as pool:
                            results += list(pool.map(lambda sh: run_stream(prop, st, tier, seed, wd, shard=sh), range(shards)))
                for res in results:
                    if not res["ok"]:
                        if res["stage"] == "harness":
                            broken.append("correspondence stream %s: harness run failed: %s" % (st.name, res["out"][-600:]))
                        else:
                            broken.append("correspondence stream %s: model evaluation failed: %s" % (st.name, res["out"][-600:]))
                        continue
                    m = res["meta"]
                    cov["skipped_outside_fragment"] = cov.get("skipped_outside_fragment", 0) + res.get("skipped", 0)
                    if res.get("hyp_failed") is not None:
                        cov["theorem_hypotheses_not_met_cases"] = cov.get("theorem_hypotheses_not_met_cases", 0) + res["hyp_failed"]
                    evaluations += m["cases"]
                    programs += m["cases"]
                    nontrivial += m["distinct_nontrivial"]
                    samples += m["samples"][:2]
                    rules.append("%s: %s" % (st.name, m["rule"]))
                    if m.get("exhaustive"):
                        exhaustive = True if exhaustive is None else exhaustive
                    else:
                        exhaustive = False
                    for k, v in m["histogram"].items():
                        cov["histogram"][st.name + ":" + k] = cov["histogram"].get(st.name + ":" + k, 0) + v
                    cov["streams"][st.name] = cov["streams"].get(st.name, 0) + m["cases"]
                    done_classes = set()
                    for i in res["idx"][:40]:
                        disagreements += 1
                        if i < 0 or i >= len(m.get("inputs", [])):
                            broken.append("correspondence stream %s: unparsable mismatch output" % st.name)
                            continue
                        inp = m["inputs"][i]
                        cls = st.classify(inp) if st.classify else None
                        kf = next((f for f in known["findings"] if f["property"] == prop.pid and f.get("class") == cls), None) if cls else None
                        if os.environ.get("VERIF_IGNORE_KNOWN"):
                            kf = None     # development aid (repairing a recorded finding): report everything
                        if kf:
                            if cls not in done_classes:
                                known_hits.append(kf)
                                done_classes.add(cls)
                            continue
                        if len(violations) >= 2:
                            continue
                        small = shrink(prop, st, tier, seed, wd, inp)
                        rp = replay_path("%s_%d" % (st.name, len(violations)))
                        json.dump({"property": prop.pid, "stream": st.name, "seed": seed,
                                   "what": "implementation and proved model disagree on this input; the model satisfies the property (theorems in %s), so the implementation violates it here" % prop.coq_props,
                                   "replay_cmd": "./check %s quick --replay %s" % (prop.pid, os.path.relpath(rp, V.VERIF)),
                                   "inputs": [small], "original_input": inp}, open(rp, "w"), indent=1)
                        violations.append((rp, "stream %s case %d" % (st.name, i), False))
        if broken and not violations:
            rp = replay_path("broken")
            json.dump({"property": prop.pid, "no_failing_input_found": True,
                       "no_longer_checks": broken,
            "coqchk": coqchk,
                       "searched": {k: v for k, v in cov["streams"].items()},
                       "inputs": []}, open(rp, "w"), indent=1)
            violations.append((rp, "; ".join(broken)[:300], True))

    wall = time.time() - t0
    ev = {
        "property_id": prop.pid, "tier": tier, "seed": seed, "level": "proof",
        "coverage": {
            "obligations": max(obligations, 1), "discharged": discharged,
            "checker_cmd": "make -C coq %s (coqc 8.16.1, full .vo) ; coqc cases_*.v (vm_compute of the model on the implementation's observations)" % vo(prop.coq_props),
            "trusted_base": prop.trusted_base,
            "obligations_per_file": per_file,
            "print_assumptions": assumptions,
            "theorems": names,
            "evaluations": max(evaluations, 1), "distinct_nontrivial": nontrivial,
            "rule": " || ".join(rules), "samples": samples[:6] or ["(no stream ran)"],
            "programs": max(programs, 1), "disagreements_checked": disagreements,
            "exhaustive": bool(exhaustive),
            "cases_per_stream": cov["streams"], "input_histogram": cov["histogram"],
            "skipped_outside_model_fragment": cov.get("skipped_outside_fragment", 0),
            "theorem_hypotheses_not_met_cases": cov.get("theorem_hypotheses_not_met_cases", 0),
            "no_longer_checks": broken,
            "coqchk": coqchk,
            "known_findings_hit": [f.get("id") for f in known_hits],
        },
        "assumptions": prop.assumptions,
        "wall_s": round(wall, 1), "violations": len(violations),
    }
    os.makedirs(os.path.join(out_root, "evidence"), exist_ok=True)
    json.dump(ev, open(os.path.join(out_root, "evidence", prop.pid + ".json"), "w"), indent=1)
    printed = set()
    for f in known_hits:
        if f.get("id") in printed:
            continue
        printed.add(f.get("id"))
        print("KNOWN-FINDING: property=%s %s" % (prop.pid, f.get("what", f.get("id"))))
    for rp, note, noinput in violations:
        V.log("violation: " + note)
        print("VIOLATION property=%s replay=%s%s" % (prop.pid, rp, " no-failing-input-found" if noinput else ""))
    sys.stdout.flush()
    return 1 if violations else 0
