"""Shared machinery of the lmd verification checks.

A check of property Cxx does, in this order (see DESIGN.md section 2):
  1. build the Go harness against /repo's working tree (overlay, -tags verif)
  2. regenerate coq/theories/Gen/*.v from the code (`lmdverif gen`)
  3. `make` the Coq targets of the property (full .vo; proofs re-checked when a
     generated file changed)
  4. gate: no Admitted/Axiom/... in the development; Print Assumptions of every
     theorem in the property's Props.v captured
  5. correspondence streams: harness runs the implementation on generated
     cases and writes them with the observed results into a Coq file, coqc
     evaluates the model on them (vm_compute) and prints the mismatches
  6. evidence file, KNOWN-FINDING / VIOLATION lines, exit code
"""
import fcntl
import glob
import json
import os
import re
import shutil
import subprocess
import sys
import time

VERIF = os.path.dirname(os.path.dirname(os.path.abspath(__file__)))
REPO = os.environ.get("VERIF_REPO", "/repo")
WORK = os.path.join(VERIF, "work")
COQ = os.path.join(VERIF, "coq")
# one build directory and binary per source tree, so that checks of scratch copies (VERIF_REPO)
# never share build state with checks of /repo
REPO_TAG = "" if REPO == "/repo" else "_" + __import__("hashlib").sha1(REPO.encode()).hexdigest()[:10]
HARNESS_BIN = os.path.join(WORK, "bin" + REPO_TAG, "lmdverif")
GOENV = dict(os.environ, GOFLAGS="-mod=mod", GOPROXY="off", GOSUMDB="off", GOTOOLCHAIN="local",
             CGO_ENABLED=os.environ.get("CGO_ENABLED", "0"))
FORBIDDEN = re.compile(r"\b(Admitted|admit|Axiom|Axioms|Parameter|Parameters|Conjecture|Conjectures|"
                       r"Unset Guard Checking|bypass_check|Admit Obligations|Unset Positivity Checking|"
                       r"Unset Universe Checking|type-in-type|impredicative-set|native_compute)\b")


class CheckError(Exception):
    """infrastructure failure that is not a verdict about the property"""


def log(msg):
    print("[check] " + msg, file=sys.stderr, flush=True)


def sh(cmd, cwd=None, env=None, timeout=None, check=False):
    start = time.time()
    try:
        proc = subprocess.run(cmd, cwd=cwd, env=env, timeout=timeout, stdout=subprocess.PIPE,
                              stderr=subprocess.STDOUT, text=True, errors="replace")
        out, rc = proc.stdout, proc.returncode
    except subprocess.TimeoutExpired as exc:
        out = (exc.stdout or b"").decode("utf-8", "replace") if isinstance(exc.stdout, bytes) else (exc.stdout or "")
        out += "\n*** TIMEOUT after %ss" % timeout
        rc = 124
    dur = time.time() - start
    if check and rc != 0:
        raise CheckError("command failed (%s): %s\n%s" % (rc, " ".join(cmd) if isinstance(cmd, list) else cmd, out[-4000:]))
    return rc, out, dur


class Lock:
    def __init__(self, name):
        os.makedirs(WORK, exist_ok=True)
        self.path = os.path.join(WORK, "." + name + ".lock")

    def __enter__(self):
        self.fh = open(self.path, "w")
        fcntl.flock(self.fh, fcntl.LOCK_EX)
        return self

    def __exit__(self, *a):
        fcntl.flock(self.fh, fcntl.LOCK_UN)
        self.fh.close()


# ---------------------------------------------------------------------------
# step 1: harness build

def build_harness():
    """builds work/bin/lmdverif from /repo's working tree plus the overlay files.
    returns (ok, output)"""
    hb = os.path.join(WORK, "hbuild" + REPO_TAG)
    os.makedirs(hb, exist_ok=True)
    os.makedirs(os.path.dirname(HARNESS_BIN), exist_ok=True)
    for name in ("go.mod", "main.go"):
        shutil.copyfile(os.path.join(VERIF, "harness", name), os.path.join(hb, name))
    gomod = open(os.path.join(hb, "go.mod")).read().replace("/repo/pkg/lmd", os.path.join(REPO, "pkg/lmd"))
    open(os.path.join(hb, "go.mod"), "w").write(gomod)
    shutil.copyfile(os.path.join(REPO, "go.sum"), os.path.join(hb, "go.sum"))
    overlay = {"Replace": {}}
    for path in sorted(glob.glob(os.path.join(VERIF, "harness", "inpkg", "*.go"))):
        overlay["Replace"][os.path.join(REPO, "pkg/lmd", "zz_verif_" + os.path.basename(path))] = path
    json.dump(overlay, open(os.path.join(hb, "overlay.json"), "w"), indent=1)
    rc, out, dur = sh(["go", "build", "-tags", "verif", "-overlay", "overlay.json", "-o",
                       HARNESS_BIN, "."], cwd=hb, env=GOENV, timeout=900)
    log("harness build rc=%d in %.1fs" % (rc, dur))
    return rc == 0, out


def harness(args, timeout=1800, env=None):
    e = dict(os.environ)
    if env:
        e.update(env)
    return sh([HARNESS_BIN] + args, cwd=WORK, env=e, timeout=timeout)


# ---------------------------------------------------------------------------
# step 2/3: generated files and coq build

def write_if_changed(path, content):
    try:
        if open(path).read() == content:
            return False
    except OSError:
        pass
    os.makedirs(os.path.dirname(path), exist_ok=True)
    open(path, "w").write(content)
    return True


def regen(only=None):
    """`lmdverif gen` prints the generated Coq files as '=== FILE name' sections;
    only: list of the registered extra files to regenerate besides Schema.v (None = all)"""
    rc, out, _ = harness(["gen"] + ([] if only is None else ["--only", ",".join(only)]))
    if rc != 0:
        return False, out
    cur, buf, files = None, [], {}
    for line in out.splitlines():
        if line.startswith("=== FILE "):
            if cur:
                files[cur] = "\n".join(buf) + "\n"
            cur, buf = line[len("=== FILE "):].strip(), []
        elif cur:
            buf.append(line)
    if cur:
        files[cur] = "\n".join(buf) + "\n"
    changed = []
    for name, content in files.items():
        if write_if_changed(os.path.join(COQ, "theories", "Gen", name), content):
            changed.append(name)
    if changed:
        log("generated files changed: %s" % ", ".join(changed))
    return True, out


def coq_files():
    return sorted(glob.glob(os.path.join(COQ, "theories", "**", "*.v"), recursive=True))


def coq_makefile():
    files = [os.path.relpath(f, COQ) for f in coq_files()]
    stamp = os.path.join(COQ, ".filelist")
    listing = "\n".join(files) + "\n"
    if write_if_changed(stamp, listing) or not os.path.exists(os.path.join(COQ, "Makefile")):
        sh(["coq_makefile", "-f", "_CoqProject"] + files + ["-o", "Makefile"], cwd=COQ, check=True)


def coq_make(targets, timeout=3000):
    coq_makefile()
    rc, out, dur = sh(["make", "-j16"] + targets, cwd=COQ, timeout=timeout)
    log("coq make %s rc=%d in %.1fs" % (" ".join(targets) if targets else "all", rc, dur))
    return rc == 0, out


def coq_closure(vfiles):
    """transitive closure of LMD source files the given .v files depend on"""
    seen, todo = set(), [os.path.join(COQ, v) for v in vfiles]
    while todo:
        f = todo.pop()
        if f in seen or not os.path.exists(f):
            continue
        seen.add(f)
        for m in re.finditer(r"From LMD Require (?:Import|Export)?([^.]*(?:\.[A-Za-z][^.]*)*)\.\s", open(f).read()):
            for mod in m.group(1).split():
                path = os.path.join(COQ, "theories", *mod.split(".")) + ".v"
                todo.append(path)
    return sorted(seen)


THM = re.compile(r"^\s*(Theorem|Lemma|Corollary|Example|Fact|Remark|Proposition)\s+([A-Za-z0-9_']+)", re.M)


def count_obligations(vfiles):
    total, per = 0, {}
    for f in coq_closure(vfiles):
        n = len(THM.findall(open(f).read()))
        per[os.path.relpath(f, COQ)] = n
        total += n
    return total, per


def gate(vfiles=None):
    """no forbidden vernacular in the given files' closure (default: anywhere under coq/);
    comments are stripped first"""
    bad = []
    files = coq_closure(vfiles) if vfiles else coq_files()
    for f in files + [os.path.join(COQ, "_CoqProject")]:
        txt = open(f).read()
        txt = re.sub(r"\(\*.*?\*\)", " ", txt, flags=re.S)
        for m in FORBIDDEN.finditer(txt):
            bad.append("%s: %s" % (os.path.relpath(f, COQ), m.group(0)))
        # Variable / Hypothesis / Context outside a Section declare axioms
        stack = []
        for sentence in re.split(r"\.\s", txt):
            st = sentence.strip()
            m = re.match(r"(Section|Module Type|Module)\s+([A-Za-z0-9_']+)\s*(:=)?", st)
            if m and not m.group(3):
                stack.append((m.group(1)[0], m.group(2)))
                continue
            m = re.match(r"End\s+([A-Za-z0-9_']+)$", st)
            if m and stack:
                stack.pop()
                continue
            if re.match(r"(Local\s+|Global\s+)?(Variable|Variables|Hypothesis|Hypotheses|Context)\b", st) \
                    and not any(k == "S" for k, _ in stack):
                bad.append("%s: %s outside a section" % (os.path.relpath(f, COQ), st.split()[0]))
    return bad


def theorem_names(vfile):
    return [m.group(2) for m in re.finditer(r"^\s*(Theorem)\s+([A-Za-z0-9_']+)", open(os.path.join(COQ, vfile)).read(), re.M)]


def coqc_file(path, timeout=3000):
    return sh(["coqc", "-Q", os.path.join(COQ, "theories"), "LMD", "-w", "none", path],
              cwd=os.path.dirname(path), timeout=timeout)


def print_assumptions(prop, module, names):
    """compiles a scratch file that prints the assumptions of the named theorems"""
    d = os.path.join(WORK, prop)
    os.makedirs(d, exist_ok=True)
    path = os.path.join(d, "assumptions_%s.v" % prop)
    body = "From LMD Require Import %s.\n" % module
    for n in names:
        body += 'Goal True. idtac "ASSUMPTIONS %s". Abort.\nPrint Assumptions %s.\n' % (n, n)
    open(path, "w").write(body)
    rc, out, _ = coqc_file(path)
    res, cur = {}, None
    for line in out.splitlines():
        if line.startswith("ASSUMPTIONS "):
            cur = line.split()[1]
            res[cur] = []
        elif cur and line.strip():
            res[cur].append(line.strip())
    return rc == 0, {k: " ".join(v) for k, v in res.items()}


# ---------------------------------------------------------------------------
# step 5: evaluating a cases file

def eval_cases(path):
    """returns (ok, mismatching indices, raw output). The cases file ends with
    `Definition M := Eval vm_compute in mismatches cases. Print M.`"""
    rc, out, dur = coqc_file(path)
    if rc != 0:
        return False, [], out
    m = re.search(r"^M\s*=\s*(.*?)\n\s*:\s*list", out, re.S | re.M)
    if not m:
        return False, [], out
    body = m.group(1).strip()
    sk = re.search(r"^SK\s*=\s*(\d+)", out, re.M)
    eval_cases.last_skipped = int(sk.group(1)) if sk else 0
    if body == "[]":
        return True, [], out
    idx = [int(x) for x in re.findall(r"\(\s*(\d+)(?:%nat)?\s*,", body)]
    if not idx:
        idx = [-1]
    return True, sorted(set(idx)), out


eval_cases.last_skipped = 0


def shrink_json(value):
    """candidate reductions of a JSON value: drop one list element somewhere,
    or shorten a string. Yields strictly smaller values."""
    if isinstance(value, list):
        for i in range(len(value)):
            yield value[:i] + value[i + 1:]
        for i, v in enumerate(value):
            for s in shrink_json(v):
                yield value[:i] + [s] + value[i + 1:]
    elif isinstance(value, dict):
        for k in sorted(value):
            for s in shrink_json(value[k]):
                d = dict(value)
                d[k] = s
                yield d


def json_size(v):
    return len(json.dumps(v))
