#!/usr/bin/env python3
"""collects the confirmed seeded changes into /verif/seeded/<id>/ (patch.diff, demo, meta.json)"""
import glob, json, os, re, shutil, sys
confirm = {}
for f in glob.glob('/tmp/confirm_*.log'):
    for line in open(f):
        m = re.match(r"(C\d+_m\d): .*clean_ok=(\d) patched_fail=(\d) suite_ok=(\d)", line)
        if m:
            confirm[m.group(1)] = dict(demo_passes_unchanged=m.group(2) == '1', demo_fails_with_change=m.group(3) != '0', suite_passes_with_change=m.group(4) == '1')
caught = {}
for f in glob.glob('/tmp/mutants_*.log'):
    for line in open(f):
        m = re.match(r"(C\d+_m\d) (C\d+) rc=(\d+) violations=(\d+)", line)
        if m:
            caught.setdefault(m.group(1), {})[m.group(2)] = dict(rc=int(m.group(3)), violations=int(m.group(4)))
needs = json.load(open('/verif/tools/seeded_needs.json')) if os.path.exists('/verif/tools/seeded_needs.json') else {}
for name, c in sorted(confirm.items()):
    if not (c['demo_passes_unchanged'] and c['demo_fails_with_change'] and c['suite_passes_with_change']):
        print('not confirmed:', name, c)
        continue
    pid, m = name.split('_')
    src = '/tmp/seed-%s-out/%s' % (pid, m)
    if not os.path.isdir(src):
        src = '/tmp/seed2-%s-out/%s' % (pid, m)     # second round of seeded changes (m3, m4)
    if not os.path.isdir(src):
        src = '/tmp/seed3-%s-out/%s' % (pid, m)     # third round (m5, m6)
    dst = '/verif/seeded/%s' % name
    os.makedirs(dst, exist_ok=True)
    # a patch written against an older tree was ported by hand to the current one where a later fix: commit touched the same lines
    ported = os.path.exists(src + '/patch_ported.diff')
    shutil.copyfile(src + ('/patch_ported.diff' if ported else '/patch.diff'), dst + '/patch.diff')
    if ported:
        shutil.copyfile(src + '/patch.diff', dst + '/patch_as_written.diff')
    demo = (glob.glob(src + '/*_test.go') or [None])[0]
    if demo:
        shutil.copyfile(demo, dst + '/demo_test.go.txt')   # .txt: must not be compiled as part of /verif
    if os.path.exists(src + '/README.md'):
        shutil.copyfile(src + '/README.md', dst + '/README.md')
    need = needs.get(name)
    if not need and os.path.exists(src + '/README.md'):
        # the section of the author's README that says what the change needs to manifest
        txt = open(src + '/README.md').read()
        m = re.search(r"(?ims)^#+[^\n]*(need|manifest)[^\n]*\n(.*?)(?=^#+ |\Z)", txt)
        if m:
            need = re.sub(r"\s+", " ", m.group(2)).strip()[:1500]
    meta = {
        "id": name, "property": pid,
        "written_by": "independent sub-agent given only the property text and a scratch worktree of /repo",
        "needs_to_manifest": need or "see README.md",
        "confirmed_in_scratch_worktree": c,
        "confirm_cmd": "tools/confirm_seed.sh %s %s (demo on unchanged tree: pass; demo with patch: fail; full go test with patch: pass)" % (src, name),
        "checks_run": caught.get(name, {}),
        "caught_by": sorted(k for k, v in caught.get(name, {}).items() if v['violations'] > 0),
        "run_cmd": "tools/try_mutant.sh seeded/%s/patch.diff %s <checks>  (scratch worktree via VERIF_REPO, /repo itself untouched)" % (name, name),
    }
    json.dump(meta, open(dst + '/meta.json', 'w'), indent=1)
    print(name, 'caught by', meta['caught_by'] or 'NOTHING YET', 'of', sorted(caught.get(name, {})))
