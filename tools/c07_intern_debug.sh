#!/bin/bash
# usage: tools/c07_intern_debug.sh <replay.json>: prints the dumped and the model's internal observables of the first input
wd=/verif/work/dbg; mkdir -p $wd; cd $wd
cp /verif/work/bin/lmdverif ./lmdverif
./lmdverif qe --profile c07 --replay $1 --out one.v --meta one_meta.json >/dev/null 2>&1
grep -n "^Definition c0" -A2 one.v | cut -c1-400
grep -n "^Definition x0" -A3 one.v | cut -c1-900
cat >> one.v <<'EOT'
From LMD Require Import Gen.Schema.
Definition A := Eval vm_compute in (internals x0, match parse_request schema (q_opt c0) (q_lines c0) with Ok rq => (map (fun bk => prefilter_ids schema bk (rq_table rq) (rq_filter rq)) (q_ds c0), shapes (optimize (rq_stats rq))) | _ => ([],None) end).
Print A.
EOT
coqc -Q /verif/coq/theories LMD -w none one.v 2>&1 | sed -n '/^A =/,$p' | head -40 | cut -c1-900
