#!/bin/bash
# usage: confirm_seed.sh <seed-out-dir e.g. /tmp/seed-C01-out/m1> <name>
# confirms in a scratch worktree: demo passes on the unchanged tree, fails with the patch, existing suite passes with the patch
set -u
src=$1; name=$2
export GOFLAGS=-mod=mod GOPROXY=off GOSUMDB=off GOTOOLCHAIN=local
wt=/tmp/confirm-$name
git -C /repo worktree remove --force $wt >/dev/null 2>&1
git -C /repo worktree add -q --detach $wt HEAD || exit 2
demo=$(ls $src/*_test.go 2>/dev/null | head -1)
[ -z "$demo" ] && demo=$src/demo_test.go
cp $demo $wt/pkg/lmd/zz_demo_${name}_test.go
run() { (cd $wt/pkg/lmd && unshare -rn sh -c "ip link set lo up; go test -vet=off -count=1 $* . " 2>&1 | tail -3 | tr '\n' ' '); }
tests=$(grep -o "^func Test[A-Za-z0-9_]*" $wt/pkg/lmd/zz_demo_${name}_test.go | sed 's/func //' | tr '\n' '|' | sed 's/|$//')
r1=$(run -run "'^($tests)\$'")
if ! git -C $wt apply $src/patch.diff; then echo "$name: PATCH DOES NOT APPLY"; git -C /repo worktree remove --force $wt; exit 3; fi
(cd $wt/pkg/lmd && go build ./... ) || { echo "$name: does not compile"; git -C /repo worktree remove --force $wt; exit 4; }
r2=$(run -run "'^($tests)\$'")
rm -f $wt/pkg/lmd/zz_demo_${name}_test.go
r3=$(run -timeout 20m)
git -C /repo worktree remove --force $wt
ok1=$(echo "$r1" | grep -c "^ok\|ok  	lmd")
fail2=$(echo "$r2" | grep -c "FAIL")
ok3=$(echo "$r3" | grep -c "ok  	lmd")
echo "$name: demo-clean=[$r1] demo-patched=[$r2] suite-patched=[$r3] => clean_ok=$ok1 patched_fail=$fail2 suite_ok=$ok3"
