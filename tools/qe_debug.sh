#!/bin/bash
# usage: tools/qe_debug.sh <replay.json> [profile]  -- prints implementation answer and model answer of the first input
set -e
wd=/verif/work/dbg; mkdir -p $wd; cd $wd
cp /verif/work/bin/lmdverif ./lmdverif
./lmdverif qe --profile ${2:-c01} --replay $1 --out one.v --meta one_meta.json
echo 'Definition A := Eval vm_compute in model_answer c0. Print A.' >> one.v
echo "---- implementation:"; awk '/^Definition c0 /,/\)\.$/' one.v | sed -n '2,40p' | cut -c1-300
echo "---- model:"; coqc -Q /verif/coq/theories LMD -w none one.v 2>&1 | sed -n '/^A =/,$p' | head -60 | cut -c1-300
