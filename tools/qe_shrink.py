#!/usr/bin/env python3
"""usage: tools/qe_shrink.py <profile> <meta.json> <index> [budget]: shrink one mismatching case and show it"""
import sys, json, os, shutil, subprocess
sys.path.insert(0, '/verif/lib'); sys.path.insert(0, '/verif/checks')
import vcheck as V, runner
from runner import Prop, Stream
from qe_common import valid_qe, shrink_request
prof, meta, idx = sys.argv[1], sys.argv[2], int(sys.argv[3])
os.environ["VERIF_SHRINK_BUDGET"] = sys.argv[4] if len(sys.argv) > 4 else "120"
wd = '/verif/work/shrink_' + prof
os.makedirs(wd, exist_ok=True)
shutil.copyfile('/verif/work/bin/lmdverif', wd + '/lmdverif'); os.chmod(wd + '/lmdverif', 0o755)
st = Stream("x", "qe", 1, 1, valid=valid_qe, shrinker=shrink_request, extra_args=["--profile", prof])
inp = json.load(open(meta))['inputs'][idx]
small = runner.shrink(None, st, 'quick', 1, wd, inp)
print(small['lines'], 'optimize' if small['optimize'] else 'default', small['svc_strict'], small['grp_strict'])
t0 = small['lines'][0].split()[1]
for b in small['ds']['backends']:
    print(' ', b['key'], b['flags'], 'avail' if b['avail'] else 'DOWN')
    for t in b['tables']:
        if t['rows'] and t['name'] not in ('status', 'timeperiods', 'commands', 'contacts', 'contactgroups'):
            print('    ', t['name'], t['cols'] if t['name'] == t0 else '')
            for r in t['rows']:
                print('       ', r)
json.dump({"inputs": [small]}, open(wd + '/small.json', 'w'))
print(subprocess.run(['/verif/tools/qe_debug.sh', wd + '/small.json', prof], capture_output=True, text=True).stdout)
