#!/bin/bash
# regenerates coq/theories/Gen/*.v from /repo's working tree (after runs against scratch copies, which share the Gen directory)
cd /verif && env -u VERIF_REPO python3 -c '
import sys; sys.path.insert(0, "lib")
import vcheck as V
with V.Lock("global"):
    ok, out = V.build_harness()
    assert ok, out[-2000:]
    ok, out = V.regen()
    assert ok, out[-2000:]
print("Gen regenerated from", V.REPO)
'
