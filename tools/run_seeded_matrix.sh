#!/bin/bash
# usage: tools/run_seeded_matrix.sh [ids...]: runs the quick checks against every seeded change (seeded/<id>/patch.diff) in scratch
# worktrees of /repo (never /repo itself) and writes seeded/matrix.log; tools/seeded_table.py turns it into the table of DESIGN.md
cd /verif
extra() { case $1 in
  C01_m1|C01_m2) echo C07;; C05_m1) echo C07;; C07_m3) echo C01;; C04_m4) echo C13;; C05_m2) echo C08;; C06_m2) echo C07;; C07_m1) echo C01;; C07_m2) echo C05;; C17_m2) echo C18;; esac; }
ids="$@"; [ -z "$ids" ] && ids=$(ls seeded | grep '^C[0-9]*_m[0-9]*$')
log=seeded/matrix.log
for id in $ids; do
  echo "$id ${id%%_*} $(extra $id)" | sed 's/ *$//'
done | xargs -P ${MATRIX_JOBS:-3} -L 1 sh -c 'id=$0; shift 0; tools/try_mutant.sh /verif/seeded/$id/patch.diff $id "$@" 2>&1 | grep "rc=" ' >> $log.new
sort $log.new > $log.sorted
# newest result per (id, check) wins
cat $log $log.sorted 2>/dev/null | awk '{k=$1" "$2; r[k]=$0} END {for (k in r) print r[k]}' | sort > $log.tmp && mv $log.tmp $log
rm -f $log.new $log.sorted
cat $log
