#!/usr/bin/env python3
"""seeded/matrix.log (tools/run_seeded_matrix.sh) -> seeded/<id>/meta.json (checks_run, caught_by), seeded/TABLE.md and the
table between the SEEDED-TABLE markers of DESIGN.md"""
import json, os, re, glob
V = '/verif'
res = {}
for line in open(V + '/seeded/matrix.log'):
    m = re.match(r"(C\d+_m\d+) (C\d+) rc=(\d+) violations=(\d+)(.*)", line)
    if m:
        res.setdefault(m.group(1), {})[m.group(2)] = dict(rc=int(m.group(3)), violations=int(m.group(4)),
                                                         no_failing_input='no-failing-input-found' in m.group(5))
rows = []
for d in sorted(glob.glob(V + '/seeded/C*_m*')):
    name = os.path.basename(d)
    mp = d + '/meta.json'
    meta = json.load(open(mp))
    r = res.get(name, {})
    meta['checks_run'] = r
    meta['caught_by'] = sorted(k for k, v in r.items() if v['violations'] > 0)
    meta['missed_by'] = sorted(k for k, v in r.items() if v['violations'] == 0)
    json.dump(meta, open(mp, 'w'), indent=1)
    title = ''
    if os.path.exists(d + '/README.md'):
        first = open(d + '/README.md').readline().strip().lstrip('# ').strip()
        title = re.sub(r"^C\d+\s*/?\s*m\d\s*[-:—–]*\s*", "", first)
    note = meta.get('coordinator_note', '')
    rows.append((name, meta['property'], title[:110], ', '.join(meta['caught_by']) or '-', ', '.join(meta['missed_by']) or '-', note))
out = ["| change | written for | what it does | caught by (quick tier) | run, not caught | note |", "|---|---|---|---|---|---|"]
for r in rows:
    out.append("| %s | %s | %s | %s | %s | %s |" % r)
n_c = sum(1 for r in rows if r[3] != '-')
out.append("")
out.append("%d seeded changes, %d caught by at least one quick check." % (len(rows), n_c))
table = "\n".join(out) + "\n"
open(V + '/seeded/TABLE.md', 'w').write(table)
p = V + '/DESIGN.md'
s = open(p).read()
a, b = '<!-- SEEDED-TABLE-BEGIN -->', '<!-- SEEDED-TABLE-END -->'
if a in s and b in s:
    s = s[:s.index(a) + len(a)] + "\n" + table + s[s.index(b):]
    open(p, 'w').write(s)
print(table)
