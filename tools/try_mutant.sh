#!/bin/bash
# usage: try_mutant.sh <patch.diff> <name> <Cxx> [Cyy ...]: run the quick checks against a scratch worktree of /repo with the patch applied
patch=$1; name=$2; shift 2
export GOFLAGS=-mod=mod GOPROXY=off GOSUMDB=off GOTOOLCHAIN=local
wt=/tmp/mut-$name
git -C /repo worktree remove --force $wt >/dev/null 2>&1
git -C /repo worktree add -q --detach $wt HEAD || exit 2
git -C $wt apply $patch || { echo "$name: patch does not apply"; git -C /repo worktree remove --force $wt; exit 3; }
cd /verif
for c in "$@"; do
  out=$(VERIF_REPO=$wt VERIF_SHRINK_BUDGET=${VERIF_SHRINK_BUDGET:-20} timeout 900 ./check $c quick 2>/dev/null)
  rc=$?
  nv=$(echo "$out" | grep -c "^VIOLATION")
  echo "$name $c rc=$rc violations=$nv $(echo "$out" | grep "^VIOLATION" | head -1 | cut -c1-140)"
  if [ $nv -gt 0 ]; then
    mkdir -p /verif/work/mutant_replays
    for f in $(echo "$out" | grep "^VIOLATION" | sed 's/.*replay=\([^ ]*\).*/\1/'); do cp $f /verif/work/mutant_replays/${name}_$(basename $f) 2>/dev/null; done
  fi
done
git -C /repo worktree remove --force $wt
tag=$(python3 -c "import hashlib,sys; print(hashlib.sha1(sys.argv[1].encode()).hexdigest()[:10])" $wt)
rm -rf /verif/work/bin_$tag /verif/work/hbuild_$tag /verif/work/scratch_$tag /verif/work/C??_$tag
cd /verif && tools/regen.sh >/dev/null 2>&1
